"""Key-shape recipes for the certificate properties (C07, C14, C15): a recipe is a JSON-able description of a
transferable key; build_pgpy() realises it through PGPy's public API, build_ref() through the reference signer
in a deliberately foreign layout.  Both return the model: which signature (by packet body) is attached to which
component and whether it is exportable."""
import datetime

from hypothesis import strategies as st

from . import keypool, sigkit
from .refpgp import wire, keys as rkeys, sig as rsig, grammar

PRIMARIES = ['ed25519-0', 'ecdsa-p256-0', 'ecdsa-p384-0', 'dsa1024-0', 'rsa1024-0', 'ed25519-publead0', 'ecdsa-k256-0']
CERTIFIERS = ['ed25519-1', 'ecdsa-p256-1', 'rsa1024-1', 'ed25519-2']
SUBKEYS = ['cv25519-0', 'ed25519-seedlead0', 'ecdh-p256-0', 'ecdsa-p521-0', 'rsa1024-1', 'cv25519-publead0', 'ecdh-p384-0@9,9']
UIDS = ['Alice Example (work) <alice@example.org>', 'Ünï Çödé <ü@example.org>', 'No Email', 'Bob (b) <bob@example.org>', '日本 太郎 <taro@example.jp>',
        'paren (in (name)) <x@y>', 'x', 'LATIN1:Jörg Müller <joerg@example.de>']


def uid_octets(text):
    """user id octets for a recipe text; the LATIN1: marker denotes a user id that is not valid UTF-8 (only other
    implementations produce those: the reference encodes it as Latin-1, the API path uses the text as is)"""
    if text.startswith('LATIN1:'):
        return text[7:].encode('latin-1')
    return text.encode('utf-8')
BASE = 1600000000


def utc(ts):
    return datetime.datetime.fromtimestamp(ts, datetime.timezone.utc)


def recipe_strategy(max_uids=4, max_subs=3):
    dt = st.sampled_from([0, 0, 0, 1, 2, 60])
    cert = st.fixed_dictionaries({'by': st.sampled_from(CERTIFIERS), 'level': st.sampled_from([0x10, 0x11, 0x12, 0x13]),
                                  'exportable': st.sampled_from([None, None, True, False]), 't': dt})
    ident = st.fixed_dictionaries({'flags': st.sampled_from([0x03, 0x01, 0x0F, 0x23]), 't': dt, 'primary': st.sampled_from([None, True, False]),
                                   'certs': st.lists(cert, max_size=3), 'revoked': st.booleans(), 'recert': st.booleans()})
    return st.fixed_dictionaries({
        'primary': st.sampled_from(PRIMARIES),
        'uids': st.lists(st.sampled_from(UIDS), min_size=1, max_size=max_uids, unique=True).flatmap(
            lambda names: st.tuples(*[ident.map(lambda d, n=n: dict(d, text=n)) for n in names]).map(list)),
        'uas': st.lists(ident, max_size=2),
        'direct': st.lists(dt, max_size=2),
        'revokers': st.lists(st.sampled_from(CERTIFIERS), max_size=1),
        'third_direct': st.lists(st.fixed_dictionaries({'by': st.sampled_from(CERTIFIERS), 'exportable': st.sampled_from([None, False]), 't': dt}), max_size=1),
        'subkeys': st.lists(st.fixed_dictionaries({'kid': st.sampled_from(SUBKEYS), 't': dt, 'revoked': st.booleans(), 'rebind': st.booleans()}),
                            max_size=max_subs, unique_by=lambda s: s['kid'].split('@')[0]),
        'revoked': st.booleans(),
    })


def sub_usage(kid):
    alg = keypool.entry(kid)['alg']
    return 0x0C if alg == 18 else 0x02 if alg in (17, 19, 22) else 0x0C


class Model(object):
    def __init__(self):
        self.att = []        # (component key, signature body, exportable)
        self.uids = []       # texts (octets) in creation order
        self.uas = []        # attribute packet bodies
        self.subs = []       # subkey fingerprints (hex upper)
        self.fpr = None

    def add(self, comp, sig, exportable=True):
        body = wire.split_packets(bytes(sig))[0].body if not isinstance(sig, (bytes, bytearray)) else bytes(sig)
        self.att.append((comp, body, exportable))

    def exported(self):
        out = {}
        for comp, body, ex in self.att:
            if ex:
                out.setdefault(comp, []).append(body)
        return {k: sorted(v) for k, v in out.items()}

    def everything(self):
        out = {}
        for comp, body, ex in self.att:
            out.setdefault(comp, []).append(body)
        return {k: sorted(v) for k, v in out.items()}


def _image(i):
    return bytearray(sigkit.JPEG[:-2] + bytes([i, i]) + b'\xff\xd9')


def build_pgpy(r):
    """-> (private PGPKey, Model).  Only public API calls."""
    import pgpy
    from pgpy.constants import KeyFlags, SignatureType, RevocationReason, HashAlgorithm
    key = keypool.pgpy_key(wire.build_packet(5, keypool.secret_body(r['primary'])))
    m = Model()
    m.fpr = str(key.fingerprint)
    certifiers = {}

    def certifier(kid):
        if kid not in certifiers:
            certifiers[kid] = keypool.pgpy_key(keypool.ref_cert(kid, secret=True))
        return certifiers[kid]

    def flagset(f):
        return {x for x in KeyFlags if f & x.value}

    idents = [('uid', u) for u in r['uids']] + [('ua', u) for u in r['uas']]
    for n, (kind, u) in enumerate(idents):
        if kind == 'uid':
            name = u['text']
            obj = pgpy.PGPUID.new(name)       # whole string as name: PGPy re-parses name/comment/e-mail from it
            comp = ('uid', name.encode('utf-8'))
        else:
            obj = pgpy.PGPUID.new(_image(n))
            comp = None
        kw = dict(usage=flagset(u['flags']), created=utc(BASE + u['t']), hashes=[HashAlgorithm.SHA256])
        if u['primary'] is not None:
            kw['primary'] = u['primary']
        key.add_uid(obj, **kw)
        if kind == 'ua':
            comp = ('ua', bytes(obj._uid.__bytearray__()[len(obj._uid.header):]))
            m.uas.append(comp[1])
        else:
            m.uids.append(comp[1])
        m.add(comp, obj.selfsig)
        if u.get('recert'):
            s2 = key.certify(obj, SignatureType.Positive_Cert, usage=flagset(u['flags'] ^ 0x02), created=utc(BASE + u['t'] + 1))
            obj |= s2
            m.add(comp, s2)
        for c in u['certs']:
            kw = dict(created=utc(BASE + c['t']))
            if c['exportable'] is not None:
                kw['exportable'] = c['exportable']
            s = certifier(c['by']).certify(obj, SignatureType(c['level']), **kw)
            obj |= s
            m.add(comp, s, c['exportable'] is not False)
        if u['revoked']:
            s = key.revoke(obj, reason=RevocationReason.UserID, comment='gone', created=utc(BASE + u['t'] + 2))
            obj |= s
            m.add(comp, s)
    for t in r['direct']:
        s = key.certify(key, created=utc(BASE + t))
        key |= s
        m.add('key', s)
    for kid in r['revokers']:
        s = key.revoker(certifier(kid).pubkey, created=utc(BASE + 3))
        key |= s
        m.add('key', s)
    for c in r['third_direct']:
        kw = dict(created=utc(BASE + c['t']))
        if c['exportable'] is not None:
            kw['exportable'] = c['exportable']
        s = certifier(c['by']).certify(key, **kw)
        key |= s
        m.add('key', s, c['exportable'] is not False)
    for sk in r['subkeys']:
        sub = keypool.pgpy_key(wire.build_packet(5, keypool.secret_body(sk['kid'])))
        u = sub_usage(sk['kid'])
        key.add_subkey(sub, usage=flagset(u), created=utc(BASE + sk['t']))
        sobj = [v for v in key.subkeys.values() if v.fingerprint == sub.fingerprint][0]
        comp = ('sub', str(sobj.fingerprint))
        m.subs.append(comp[1])
        for s in sobj._signatures:
            if not s.embedded:
                m.add(comp, s)
        if sk.get('rebind'):
            s = key.bind(sobj, usage=flagset(u), created=utc(BASE + sk['t'] + 5))
            sobj |= s
            m.add(comp, s)
        if sk['revoked']:
            s = key.revoke(sobj, reason=RevocationReason.Superseded, created=utc(BASE + sk['t'] + 6))
            sobj |= s
            m.add(comp, s)
    if r['revoked']:
        s = key.revoke(key, reason=RevocationReason.Retired, comment='done', created=utc(BASE + 9))
        key |= s
        m.add('key', s)
    return key, m


def ref_view(blob):
    """reference parse of an exported key: {component: sorted signature bodies}, plus structure info"""
    tks = grammar.parse_keys(blob)
    out = []
    for tk in tks:
        d = {'key': sorted(p.body for p in tk.direct)} if tk.direct else {}
        for c in tk.ids:
            comp = ('uid', c.data) if c.kind == 'uid' else ('ua', c.data)
            if c.sigs:
                d.setdefault(comp, [])
                d[comp] = sorted(d[comp] + [p.body for p in c.sigs])
            else:
                d.setdefault(comp, [])
        for c in tk.subkeys:
            comp = ('sub', c.key.fingerprint.hex().upper())
            d[comp] = sorted(p.body for p in c.sigs)
        out.append((tk, d))
    return out


def pgpy_view(key):
    """PGPy's own attachment structure of a (re-imported) key, in the same shape"""
    d = {}

    def bodies(sigs):
        return sorted(wire.split_packets(bytes(s))[0].body for s in sigs if not s.embedded)
    ks = bodies(key._signatures)
    if ks:
        d['key'] = ks
    for u in key._uids:
        if u.is_uid:
            comp = ('uid', bytes(u._uid.__bytearray__()[len(u._uid.header):]))
        else:
            comp = ('ua', bytes(u._uid.__bytearray__()[len(u._uid.header):]))
        d[comp] = bodies(u._signatures)
    for s in key.subkeys.values():
        d[('sub', str(s.fingerprint))] = bodies(s._signatures)
    return d


def drop_empty(d):
    return {k: v for k, v in d.items() if v}


def build_ref(r, layout=0, secret=False):
    """the same recipe realised by the reference signer in a foreign layout: old-format headers, trust packets
    after every packet (GnuPG keyring style), attributes before user ids, chosen by `layout` bits.  -> (octets, Model)"""
    psec = keypool.ref_secret(r['primary'])
    ppub = psec.pub
    m = Model()
    m.fpr = ppub.fingerprint.hex().upper()
    fmt = 'old' if layout & 1 else 'new'
    # trust packets as keyring files hold them: RFC 4880 5.10 leaves their content to the implementation (GnuPG 1.4 / 2.0 write 2 octets,
    # GnuPG >= 2.1 writes 12 octets after keys and user ids and 6 after signatures)
    class _Trust(object):
        n = 0

        def __radd__(self, other):
            if not layout & 2:
                return other
            _Trust.n += 1
            size = [2, 12, 6, 12, 2, 6][(_Trust.n + len(r['uids'])) % 6] if layout & 8 or layout & 4 else 2
            return other + wire.build_packet(12, (b'\x00\x03' + bytes(range(10)))[:size], fmt)
    trust = _Trust()
    out = bytearray()
    nsec = [len(r['uids']) + 2 * len(r['uas'])]      # where the rotation of protection forms starts depends on the recipe

    def sec_body(kid):
        # layout bit 16: secret packets protected the way other implementations do (salted / simple / iterated S2K in turn, usage 254 / 255)
        if not layout & 16:
            return keypool.secret_body(kid)
        from .refpgp import s2k as rs2k
        n = nsec[0]
        nsec[0] += 1
        if n % 5 >= 3:
            # GnuPG stubs: secret part on a smartcard (extension 2, with the card's serial number) or absent (extension 1)
            from .refpgp import keys as rkeys_
            num = keypool.numbers(kid)
            return rkeys_.build_gnu_dummy_body(num[0], num[1], num[2], num[4], num[5], mode=2 if n % 5 == 3 else 1, serial=bytes(range(0xD2, 0xD2 + 16)))
        kind = ['salted', 'simple', 'iterated'][n % 3]
        spec = rs2k.Spec(kind, [2, 8][n % 2], b'' if kind == 'simple' else bytes(range(0xA1, 0xA9)), 9 if kind == 'iterated' else None)
        return keypool.secret_body(kid, protect={'usage': [254, 255][(n // 3) % 2], 'sym': [7, 9, 3][n % 3], 'spec': spec, 'iv': bytes(range(16))[:8 if n % 3 == 2 else 16], 'passphrase': 'foreign pw'})
    m.secret_bodies = []
    body0 = sec_body(r['primary']) if secret else ppub.body
    m.secret_bodies.append(body0)
    out += wire.build_packet(5 if secret else 6, body0, fmt) + trust

    def emit_sig(comp, body, exportable=True):
        m.att.append((comp, body, exportable))
        return wire.build_packet(2, body, fmt) + trust

    def mk(signer_kid, sigtype, subject, t, extra=b'', unhashed_extra=b''):
        sec = keypool.ref_secret(signer_kid)
        if layout & 8:
            # layout bit 8: legal encodings PGPy would not choose itself (five-octet subpacket lengths, a private-use subpacket, unknown keyserver-preference bits)
            hashed = keypool.sp(33, b'\x04' + sec.pub.fingerprint) + keypool.sp(2, wire.u32(BASE + t), lenform=5) + extra + keypool.sp(100, b'foreign', lenform=5) + keypool.sp(23, b'\xC1')
            return rsig.sign(sec, sigtype, 8, subject, hashed, keypool.sp(16, sec.pub.keyid) + unhashed_extra)
        return rsig.sign(sec, sigtype, 8, subject, keypool.std_hashed(BASE + t, sec.pub.fingerprint, extra), keypool.sp(16, sec.pub.keyid) + unhashed_extra)

    if r['revoked']:
        out += emit_sig('key', mk(r['primary'], 0x20, ('key', ppub), 9, keypool.sp(29, b'\x03done')))
    for t in r['direct']:
        out += emit_sig('key', mk(r['primary'], 0x1F, ('key', ppub), t, keypool.sp(27, b'\x03')))
    for c in r['third_direct']:
        ex = keypool.sp(4, b'\x00') if c['exportable'] is False else b''
        out += emit_sig('key', mk(c['by'], 0x1F, ('key', ppub), c['t'], ex), c['exportable'] is not False)
    idents = [('uid', u) for u in r['uids']] + [('ua', u) for u in r['uas']]
    if layout & 4:
        idents = idents[::-1]
    for n, (kind, u) in enumerate(idents):
        if kind == 'uid':
            data = uid_octets(u['text'])
            comp = ('uid', data)
            m.uids.append(data)
            out += wire.build_packet(13, data, fmt) + trust
        else:
            img = bytes(_image(n))
            # layout bit 8: the image subpacket length in the five-octet form (legal, RFC 4880 5.12), reserved header octets not all zero
            data = wire.sub_len_encode(len(img) + 17, 5 if layout & 8 else None) + b'\x01' + b'\x10\x00\x01\x01' + (bytes(12) if not layout & 8 else bytes(11) + b'\x07') + img
            comp = ('ua', data)
            m.uas.append(data)
            out += wire.build_packet(17, data, 'new') + trust     # tag 17 does not fit an old-format header
        subj = ('cert', ppub, kind, data)
        extra = keypool.sp(27, bytes([u['flags']])) + keypool.sp(21, b'\x08')
        if u['primary'] is not None:
            extra += keypool.sp(25, b'\x01' if u['primary'] else b'\x00')
        out += emit_sig(comp, mk(r['primary'], 0x13, subj, u['t'], extra))
        for c in u['certs']:
            ex = b'' if c['exportable'] is None else keypool.sp(4, b'\x01' if c['exportable'] else b'\x00')
            out += emit_sig(comp, mk(c['by'], c['level'], subj, c['t'], ex), c['exportable'] is not False)
        if u['revoked']:
            out += emit_sig(comp, mk(r['primary'], 0x30, subj, u['t'] + 2, keypool.sp(29, b'\x20gone')))
    for sk in r['subkeys']:
        ssec = keypool.ref_secret(sk['kid'])
        spub = ssec.pub
        comp = ('sub', spub.fingerprint.hex().upper())
        m.subs.append(comp[1])
        sbody = sec_body(sk['kid']) if secret else spub.body
        m.secret_bodies.append(sbody)
        out += wire.build_packet(7 if secret else 14, sbody, fmt) + trust
        u = sub_usage(sk['kid'])
        unh = b''
        if u & 0x02:
            eb = rsig.sign(ssec, 0x19, 8, ('subkey', ppub, spub), keypool.std_hashed(BASE + sk['t'], spub.fingerprint), keypool.sp(16, spub.keyid))
            unh = keypool.sp(32, eb)
        out += emit_sig(comp, mk(r['primary'], 0x18, ('subkey', ppub, spub), sk['t'], keypool.sp(27, bytes([u])), unh))
        if sk['revoked']:
            out += emit_sig(comp, mk(r['primary'], 0x28, ('subkey', ppub, spub), sk['t'] + 6, keypool.sp(29, b'\x01')))
    return bytes(out), m
