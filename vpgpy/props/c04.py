"""C04 -- ciphertext integrity: tampered or mis-keyed encrypted messages never decrypt to something else.

Fault enumeration over concrete ciphertexts: every single-bit flip of the encrypted body and of every
session-key packet, truncation at every offset, extension, block swaps/duplications/deletions, splices
between two messages under one session key, appended/inserted packets, ESK removal/duplication/reordering,
MDC forgeries made with knowledge of the key (reference encryptor), wrong passphrases and non-recipient keys.
Oracle (pure safety): decrypt raises, or returns exactly the original content and metadata."""
import calendar
import signal

from hypothesis import strategies as st

from .. import harness, keypool, enckit
from ..refpgp import wire, grammar, enc, s2k as rs2k, sym as rsym

RULE = ('for each base message (cipher x recipient kind x body) the mutation families flip-body / flip-esk (every bit), trunc (every '
        'offset), extend, block swap/dup/delete, splice and packet append/insert between two same-key messages, ESK remove/dup/reorder, '
        'MDC forgeries (wrong, missing, misplaced, wrong range, bad prefix repeat) and wrong credentials (passphrases at edit distance 1, '
        'trailing newline, case, empty; non-recipient keys) are enumerated (exhaustively for the quick bases, Hypothesis-sampled beyond); '
        'non-trivial = PGPy got as far as decrypting the container (outcome PGPDecryptionError or unchanged plaintext) or a wrong '
        'credential was tried; distinct by (base, family, position).')
RULE += ' Further families: container dropped or replaced by literal / compressed packets behind the original session-key packets; wrong passphrases in the other Unicode normal forms; wrong credentials offered to a message object that was already decrypted once.'
ASSUMPTIONS = ['any exception counts as "raises"', 'a per-case watchdog (10 s) turns a hang into "abandoned" (counted, never a violation)',
               'passphrase bases for exhaustive flipping use a foreign SKESK with a low S2K count (PGPy\'s own count costs 0.15 s per attempt); '
               'PGPy-made passphrase messages are flipped by sampling']

PRIMARY = enckit.PRIMARY


class Hang(Exception):
    pass


def _alarm(signum, frame):
    raise Hang()


def plain_snapshot(msg):
    m = msg.message
    return {'message': bytes(m).hex() if isinstance(m, (bytes, bytearray)) else 'str:' + m, 'filename': msg.filename,
            'format': msg._message.format, 'mtime': calendar.timegm(msg._message.mtime.utctimetuple())}


def attempt(blob, cred, expect):
    """-> ('raised', exc) | ('same', None) | ('different', snapshot)"""
    import pgpy
    old = signal.signal(signal.SIGALRM, _alarm)
    signal.alarm(10)
    try:
        m = pgpy.PGPMessage.from_blob(bytes(blob))
        if cred['t'] == 'pass':
            dec = m.decrypt(cred['pw'])
        else:
            key = keypool.pgpy_key(enckit.recipient_cert(cred['cert'], secret=True))
            if cred.get('use') == 'subkey':
                key = [s for s in key.subkeys.values()][cred.get('idx', 0)]
            dec = key.decrypt(m)
        if dec.type != 'literal':
            return 'different', {'type': dec.type}
        snap = plain_snapshot(dec)
        return ('same', None) if snap == expect else ('different', snap)
    except Hang:
        return 'hang', None
    except Exception as e:   # noqa
        return 'raised', e
    finally:
        signal.alarm(0)
        signal.signal(signal.SIGALRM, old)


def make_base(cfg, tag):
    """-> dict(blob, cred, expect, session, cipher, body) ; cfg: cipher, recip ('key', kid) | ('pass-ref', h) | ('pass-pgpy', h), body"""
    import pgpy
    from pgpy.constants import SymmetricKeyAlgorithm, CompressionAlgorithm, HashAlgorithm
    cipher = cfg['cipher']
    body = cfg['body'].encode() if isinstance(cfg['body'], str) else cfg['body']
    body = body + tag.encode()
    msg = pgpy.PGPMessage.new(body, format='b', compression=CompressionAlgorithm(cfg.get('comp', 0)))
    expect = plain_snapshot(msg)
    session = bytes((i * 29 + 7 + len(tag)) & 0xFF for i in range(rsym.KEYLEN[cipher]))
    if 'session' in cfg:
        session = cfg['session']
    r = cfg['recip']
    if r[0] == 'key':
        kids = [r[1]] + list(cfg.get('extra_keys', []))
        pub = keypool.pgpy_key(enckit.recipient_cert(kids, secret=False))
        e = msg
        for sub in pub.subkeys.values():
            e = sub.encrypt(e, cipher=SymmetricKeyAlgorithm(cipher), sessionkey=session)
        cred = {'t': 'key', 'cert': kids}
        blob = bytes(e)
    elif r[0] == 'pass-pgpy':
        e = msg.encrypt(cfg.get('pw', 'the passphrase'), cipher=SymmetricKeyAlgorithm(cipher), hash=HashAlgorithm(r[1]), sessionkey=session)
        cred = {'t': 'pass', 'pw': cfg.get('pw', 'the passphrase')}
        blob = bytes(e)
    else:
        spec = rs2k.Spec('iterated', r[1], b'saltsalt', 3)
        inner = bytes(msg)
        blob = wire.build_packet(3, enc.skesk_build(cipher, spec, cfg.get('pw', 'the passphrase'), session)) + wire.build_packet(18, enc.seipd_build(cipher, session, inner))
        cred = {'t': 'pass', 'pw': cfg.get('pw', 'the passphrase')}
    return {'blob': blob, 'cred': cred, 'expect': expect, 'session': session, 'cipher': cipher, 'inner': bytes(msg), 'cfg': {k: (v if not isinstance(v, bytes) else v.hex()) for k, v in cfg.items()}}


def judge(rec, base, name, family, pos, blob, cred=None, must_raise=False):
    cred = cred or base['cred']
    out, det = attempt(blob, cred, base['expect'])
    nt = False
    if out == 'raised':
        nt = type(det).__name__ == 'PGPDecryptionError' or must_raise
    elif out == 'same':
        nt = True
    rec.case((name, family, pos), nt, ('family/' + family, 'outcome/%s' % (out if out != 'raised' else 'raised/' + type(det).__name__), 'base/' + name),
             {'base': name, 'family': family, 'position': pos, 'outcome': out if out != 'raised' else 'raised ' + type(det).__name__})
    if out == 'hang':
        rec.note('abandoned/hang')
        return
    if out == 'different' or (must_raise and out == 'same'):
        case = {'blob': bytes(blob).hex(), 'cred': cred, 'expect': base['expect'], 'must_raise': must_raise, 'family': family, 'base': name, 'pos': str(pos)}
        rec.finding('integrity' if not must_raise else 'wrong-credential', family, case,
                    'decrypt returned %s for base %s, family %s at %s' % ('a different plaintext: %r' % (det,) if out == 'different' else 'the plaintext', name, family, pos))


def repack(pkts, replace=None, drop=(), dup=(), order=None, extra_after=None):
    out = []
    idx = list(range(len(pkts))) if order is None else order
    for i in idx:
        if i in drop:
            continue
        p = pkts[i]
        raw = p.raw
        if replace and i in replace:
            raw = wire.build_packet(p.tag, replace[i])
        out.append(raw)
        if i in dup:
            out.append(raw)
    if extra_after:
        out += extra_after
    return b''.join(out)


def families(rec, base, name, other, exhaustive, stride_seed=0):
    pkts = wire.split_packets(base['blob'])
    ci = [i for i, p in enumerate(pkts) if p.tag == 18][0]
    cont = pkts[ci]
    bs = rsym.BLOCK[base['cipher']]
    body = cont.body
    nbits = len(body) * 8
    step = 1 if exhaustive else max(1, nbits // 160) | 1
    for bit in range(stride_seed % step, nbits, step):
        b = bytearray(body)
        b[bit // 8] ^= 1 << (bit % 8)
        judge(rec, base, name, 'flip-body', bit, repack(pkts, {ci: bytes(b)}))
    for i, p in enumerate(pkts):
        if p.tag in (1, 3):
            n = len(p.body) * 8
            st_ = 1 if exhaustive else max(1, n // 96) | 1
            for bit in range(stride_seed % st_, n, st_):
                b = bytearray(p.body)
                b[bit // 8] ^= 1 << (bit % 8)
                judge(rec, base, name, 'flip-esk%d' % p.tag, bit, repack(pkts, {i: bytes(b)}))
    # truncation of the container body at every offset (header re-framed), and raw truncation of the transport
    for cut in range(0, len(body), 1 if exhaustive else 3):
        judge(rec, base, name, 'trunc-body', cut, repack(pkts, {ci: body[:cut]}))
    for cut in range(1, len(base['blob']), 1 if exhaustive else 7):
        judge(rec, base, name, 'trunc-raw', cut, base['blob'][:cut])
    # extension
    for n in list(range(1, bs + 3)) + [2 * bs, 22, 44]:
        judge(rec, base, name, 'extend-zero', n, repack(pkts, {ci: body + bytes(n)}))
        judge(rec, base, name, 'extend-copy', n, repack(pkts, {ci: body + body[-n:]}))
        judge(rec, base, name, 'extend-ff', n, repack(pkts, {ci: body + b'\xff' * n}))
    # block operations on the ciphertext (after the version octet)
    ct = body[1:]
    nb = len(ct) // bs
    for i in range(nb):
        for j in range(i + 1, nb):
            if ct[i * bs:(i + 1) * bs] == ct[j * bs:(j + 1) * bs]:
                continue
            c = bytearray(ct)
            c[i * bs:(i + 1) * bs], c[j * bs:(j + 1) * bs] = ct[j * bs:(j + 1) * bs], ct[i * bs:(i + 1) * bs]
            judge(rec, base, name, 'block-swap', (i, j), repack(pkts, {ci: body[:1] + bytes(c)}))
        judge(rec, base, name, 'block-del', i, repack(pkts, {ci: body[:1] + ct[:i * bs] + ct[(i + 1) * bs:]}))
        judge(rec, base, name, 'block-dup', i, repack(pkts, {ci: body[:1] + ct[:(i + 1) * bs] + ct[i * bs:]}))
    # version octet and container tag
    for v in (0, 2, 255):
        judge(rec, base, name, 'container-version', v, repack(pkts, {ci: bytes([v]) + body[1:]}))
    judge(rec, base, name, 'container-as-tag9', 0, b''.join(p.raw for p in pkts[:ci]) + wire.build_packet(9, body[1:]))
    judge(rec, base, name, 'container-as-tag9', 1, b''.join(p.raw for p in pkts[:ci]) + wire.build_packet(9, body))
    # session-key packet surgery
    eidx = [i for i, p in enumerate(pkts) if p.tag in (1, 3)]
    for i in eidx:
        judge(rec, base, name, 'esk-dup', i, repack(pkts, dup=(i,)))
        if len(eidx) > 1:
            judge(rec, base, name, 'esk-remove', i, repack(pkts, drop=(i,)))
    if len(eidx) > 1:
        judge(rec, base, name, 'esk-reorder', 0, repack(pkts, order=list(reversed(eidx)) + [ci]))
    judge(rec, base, name, 'esk-after-container', 0, repack(pkts, order=[ci] + eidx))
    # splices with a second message under the same session key / same credentials
    if other is not None:
        op = wire.split_packets(other['blob'])
        oc = [p for p in op if p.tag == 18][0]
        obody = oc.body
        oct_ = obody[1:]
        judge(rec, base, name, 'splice-append-container', 0, base['blob'] + oc.raw)
        judge(rec, base, name, 'splice-prepend-container', 0, b''.join(p.raw for p in pkts[:ci]) + oc.raw + cont.raw)
        judge(rec, base, name, 'splice-append-message', 0, base['blob'] + other['blob'])
        judge(rec, base, name, 'splice-prepend-message', 0, other['blob'] + base['blob'])
        judge(rec, base, name, 'splice-other-esk', 0, b''.join(p.raw for p in op if p.tag in (1, 3)) + cont.raw + b''.join(p.raw for p in pkts[:ci]))
        for k in range(0, min(len(ct), len(oct_)) // bs + 1):
            judge(rec, base, name, 'splice-head', k, repack(pkts, {ci: body[:1] + oct_[:k * bs] + ct[k * bs:]}))
            judge(rec, base, name, 'splice-tail', k, repack(pkts, {ci: body[:1] + ct[:k * bs] + oct_[k * bs:]}))
    # cleartext packets smuggled next to the container
    evil = wire.build_packet(11, grammar.build_literal(0x62, b'', 0, b'pay 9999 EUR to mallory'))
    judge(rec, base, name, 'append-literal', 0, base['blob'] + evil)
    judge(rec, base, name, 'prepend-literal', 0, evil + base['blob'])
    judge(rec, base, name, 'insert-literal', 0, b''.join(p.raw for p in pkts[:ci]) + evil + cont.raw)
    # the container removed, or replaced by cleartext packets, behind the untouched session-key packets
    esks = b''.join(p.raw for p in pkts[:ci])
    judge(rec, base, name, 'container-dropped', 0, esks)
    judge(rec, base, name, 'container-replaced-by-literal', 0, esks + evil)
    judge(rec, base, name, 'container-replaced-by-literal', 1, evil + esks)
    judge(rec, base, name, 'container-replaced-by-compressed', 0, esks + wire.build_packet(8, b'\x00' + evil))
    judge(rec, base, name, 'append-compressed', 0, base['blob'] + wire.build_packet(8, b'\x00' + evil))
    judge(rec, base, name, 'append-marker', 0, base['blob'] + wire.build_packet(10, b'PGP'))
    # forgeries made with knowledge of the session key
    evil_inner = evil
    for mode in ('wrong', 'missing', 'no-prefix-range', 'misplaced', 'bad-repeat'):
        for inner, what in ((base['inner'], 'orig'), (evil_inner, 'evil')):
            forged = wire.build_packet(18, enc.seipd_build(base['cipher'], base['session'], inner, mdc_mode=mode))
            judge(rec, base, name, 'mdc-' + mode, what, b''.join(p.raw for p in pkts[:ci]) + forged, must_raise=(mode != 'bad-repeat' or what == 'evil') and what == 'evil')
    # tag-9 downgrade of the same plaintext under the same key (no integrity protection at all): allowed only to return the original
    down = wire.build_packet(9, enc.sed_build(base['cipher'], base['session'], base['inner']))
    judge(rec, base, name, 'downgrade-tag9-same', 0, b''.join(p.raw for p in pkts[:ci]) + down)


def wrong_credentials(rec, base, name):
    cred = base['cred']
    if cred['t'] == 'pass':
        pw = cred['pw']
        wrongs = {pw + '\n', pw + '\r\n', pw + ' ', ' ' + pw, pw.upper(), pw[:-1], pw[1:], pw + 'x', '', pw.replace('a', 'b', 1), pw + '\x00', pw.title(),
                  pw.encode().decode('latin-1') + 'é', pw[::-1]}
        # the same text in the other Unicode normal forms is another octet string, hence another passphrase
        import unicodedata
        wrongs |= {unicodedata.normalize(f, pw) for f in ('NFC', 'NFD', 'NFKC', 'NFKD')}
        wrongs.discard(pw)
        for w in sorted(wrongs):
            judge(rec, base, name, 'wrong-passphrase', repr(w)[:30], base['blob'], {'t': 'pass', 'pw': w}, must_raise=True)
        for w in (pw.encode() + b'\n', pw.encode()[:-1], b''):
            judge(rec, base, name, 'wrong-passphrase-bytes', repr(w)[:30], base['blob'], {'t': 'pass', 'pw': w.decode('latin-1')}, must_raise=True)
    else:
        mine = cred['cert']
        alg_same = [k for k in enckit.ENC_KEYS if k not in mine and '@' not in k]
        for k in alg_same:
            judge(rec, base, name, 'non-recipient-key', k, base['blob'], {'t': 'key', 'cert': [k]}, must_raise=True)
            # a recipient's *other* subkey, and the non-recipient subkey used directly
            judge(rec, base, name, 'non-recipient-subkey-direct', k, base['blob'], {'t': 'key', 'cert': [k], 'use': 'subkey'}, must_raise=True)
        # rewrite the PKESK key id so that a non-recipient key is addressed
        pkts = wire.split_packets(base['blob'])
        for k in alg_same[:6]:
            if keypool.entry(k)['alg'] != keypool.entry(mine[0])['alg']:
                continue
            kid = keypool.ref_public(k).keyid
            rep = {i: p.body[:1] + kid + p.body[9:] for i, p in enumerate(pkts) if p.tag == 1}
            judge(rec, base, name, 'readdressed-pkesk', k, repack(pkts, rep), {'t': 'key', 'cert': [k]}, must_raise=True)


def same_object_history(rec, base, name):
    """one message object is first decrypted with the right credential, then offered wrong ones: what happened before must not matter"""
    import pgpy
    cred = base['cred']
    try:
        m = pgpy.PGPMessage.from_blob(bytes(base['blob']))
        if cred['t'] == 'pass':
            m.decrypt(cred['pw'])
            wrongs = [cred['pw'] + 'x', '', cred['pw'][:-1], 'something else entirely']
            tries = [(repr(w), (lambda w=w: m.decrypt(w))) for w in wrongs]
        else:
            key = keypool.pgpy_key(enckit.recipient_cert(cred['cert'], secret=True))
            key.decrypt(m)
            others = [k for k in enckit.FAST_ENC_KEYS if k not in cred['cert'] and '@' not in k][:3]
            tries = [(k, (lambda k=k: keypool.pgpy_key(enckit.recipient_cert([k], secret=True)).decrypt(m))) for k in others]
    except Exception as e:   # noqa
        rec.note('same-object-history-void/%s' % harness.exc_key(e))
        return
    for label, fn in tries:
        try:
            dec = fn()
            out = 'returned'
        except Exception:   # noqa
            out = 'raised'
        rec.case((name, 'after-success', label), True, ('family/wrong-credential-after-a-successful-decryption', 'outcome/' + out, 'base/' + name),
                 {'base': name, 'family': 'wrong credential on a message object already decrypted once', 'credential': label, 'outcome': out})
        if out == 'returned':
            rec.finding('wrong-credential', 'accepted-after-a-successful-decryption/' + cred['t'], {'history': True, 'base_cfg': base['cfg'], 'wrong': label, 'family': 'after-success'},
                        'base %s: after one decryption with the right credential the same object decrypts with the wrong credential %s' % (name, label))


BASES_QUICK = [
    ('aes128-cv25519', {'cipher': 7, 'recip': ('key', 'cv25519-0'), 'body': 'attack at dawn, bring the usual. '}, True),
    ('camellia256-p256', {'cipher': 13, 'recip': ('key', 'ecdh-p256-0'), 'body': 'x'}, True),
    ('3des-rsa1024', {'cipher': 2, 'recip': ('key', 'rsa1024-0'), 'body': 'RSA recipient, 64-bit block cipher'}, False),
    ('cast5-pass-ref', {'cipher': 3, 'recip': ('pass-ref', 2), 'body': 'passphrase recipient with a low-count foreign SKESK'}, True),
    ('aes256-pass-pgpy', {'cipher': 9, 'recip': ('pass-pgpy', 8), 'body': 'PGPy-made passphrase message'}, False),
    ('aes192-two-keys', {'cipher': 8, 'recip': ('key', 'cv25519-1'), 'extra_keys': ['ecdh-p384-0'], 'body': 'two key recipients', 'comp': 1}, False),
    ('aes128-pass-nfc', {'cipher': 7, 'recip': ('pass-ref', 8), 'pw': 'Am\u00e9lie \u212b 2024', 'body': 'non-ASCII passphrase in composed form'}, False),
    ('aes128-pass-nfd', {'cipher': 7, 'recip': ('pass-pgpy', 8), 'pw': 'Ame\u0301lie 2024', 'body': 'non-ASCII passphrase in decomposed form'}, False),
    ('blowfish-k256-zlib', {'cipher': 4, 'recip': ('key', 'ecdh-k256-0'), 'body': 'compressed body ' * 4, 'comp': 2}, False),
]


def base_task(arg):
    name, cfg, exhaustive, seed = arg
    rec = harness.Rec()
    base = make_base(cfg, ' [A]')
    other = make_base(cfg, ' [message B, somewhat longer than A]')
    out, det = attempt(base['blob'], base['cred'], base['expect'])
    if out != 'same':
        # positive control: completeness is C03's subject; without it the safety oracle would be vacuous
        rec.note('void-base/%s/%s' % (name, out))
        rec.case(None, False, ('void-base',))
        return rec
    families(rec, base, name, other, exhaustive, seed)
    wrong_credentials(rec, base, name)
    same_object_history(rec, base, name)
    return rec


def sampled_task(arg):
    """Hypothesis-sampled bases: any cipher x recipient x body, with sampled flips/truncations"""
    seed, idx, n, bsec = arg
    rec = harness.Rec()
    budget = harness.Budget(bsec)
    strat = st.fixed_dictionaries({
        'cipher': st.sampled_from(enckit.CIPHERS),
        'recip': st.one_of(st.sampled_from(enckit.FAST_ENC_KEYS).map(lambda k: ['key', k]), st.sampled_from(enckit.S2K_HASHES).map(lambda h: ['pass-ref', h])),
        'body': enckit.body_strategy(False).map(lambda b: b.hex()),
        'comp': st.sampled_from([0, 1, 2, 3]),
        'seed': st.integers(0, 1000),
    })

    def body(c):
        cfg = {'cipher': c['cipher'], 'recip': tuple(c['recip']), 'body': bytes.fromhex(c['body']), 'comp': c['comp']}
        name = 'h/c%d/%s/%d' % (c['cipher'], c['recip'][1], len(cfg['body']))
        base = make_base(cfg, '')
        other = make_base(cfg, 'B')
        out, det = attempt(base['blob'], base['cred'], base['expect'])
        if out != 'same':
            rec.note('void-base/%s' % out)
            return
        families(rec, base, name, other, False, c['seed'])
    harness.run_given(strat, body, harness.derive_seed('C04', seed, idx), n, budget, rec)
    return rec


def run(tier, seed):
    tasks = []
    if tier == 'quick':
        for name, cfg, ex in BASES_QUICK:
            tasks.append(('base_task', (name, cfg, ex, seed)))
        for i in range(9):
            tasks.append(('sampled_task', (seed, i, 6, 60)))
    else:
        kinds = [('key', 'cv25519-0'), ('key', 'ecdh-p256-0'), ('key', 'ecdh-p521-0'), ('key', 'rsa1024-0'), ('pass-ref', 2), ('pass-ref', 8)]
        for c in enckit.CIPHERS:
            for r in kinds:
                tasks.append(('base_task', ('c%d-%s' % (c, r[1]), {'cipher': c, 'recip': r, 'body': 'thorough base message for every cipher '}, True, seed)))
        for name, cfg, ex in BASES_QUICK:
            tasks.append(('base_task', (name, cfg, True, seed)))
        for i in range(32):
            tasks.append(('sampled_task', (seed, i, 60, 1200)))
    return harness.pmap('vpgpy.props.c04', 'dispatch', tasks)


def dispatch(task):
    return globals()[task[0]](task[1])


def replay(case):
    if case.get('history'):
        rec = harness.Rec()
        cfg = dict(case['base_cfg'])
        cfg['recip'] = tuple(cfg['recip'])
        if isinstance(cfg.get('session'), str):
            cfg['session'] = bytes.fromhex(cfg['session'])
        same_object_history(rec, make_base(cfg, ' [A]'), 'replay')
        return [(f['clause'], f['cause'], f['detail']) for f in rec.findings]
    out, det = attempt(bytes.fromhex(case['blob']), case['cred'], case['expect'])
    if out == 'different' or (case.get('must_raise') and out == 'same'):
        return [('integrity' if not case.get('must_raise') else 'wrong-credential', case['family'], repr(det))]
    return []
