"""C05 -- the hashed subpacket area is verified verbatim, exactly as received.

Foreign signatures are made by the reference signer over generated hashed areas (any subpacket type 0..127,
critical or not, every legal length encoding, well-formed bodies incl. unknown flag bits, multi-octet flags,
boolean octets other than 0/1, UTF-8 and non-UTF-8 text, unknown types).  If PGPy accepts the packet:
(1) the octets it hashes equal the reference hash input (i.e. the region as received + trailer),
(2) verification is truthy (also for a copy of the signature and after export/import),
(3) every single-bit flip inside the hashed region is rejected at parse or verifies falsy."""
import copy

from hypothesis import strategies as st

from .. import harness, keypool, sigkit
from ..refpgp import wire, keys as rkeys, sig as rsig

RULE = ('covering set: every subpacket type 0..127 x critical bit x body classes (empty/1/typical/191/192/300 octets for opaque types; per-type '
        'well-formed bodies otherwise) x the three length encodings, every value 0..255 of each flag octet (key flags, features, key-server '
        'preferences, notation flags), boolean octets 0..255; Hypothesis: lists of 1..8 such subpackets in any order, bodies to 9000 octets in '
        'thorough, on document and certification signatures by RSA/ECDSA/EdDSA keys. For each accepted packet: hashed octets == reference hash '
        'input, verifies, copy verifies, re-export identical; all single-bit flips of the hashed region (exhaustive for every 4th case, sampled '
        'otherwise) must not verify. Non-trivial: accepted signature with >=1 hashed subpacket other than creation time/issuer; distinct by '
        '(type, critical, length-encoding class, body class).')
RULE += ' The four fixed octets (version, type, public-key algorithm, hash algorithm) are flipped bit by bit in every case; signers include DSA and an RSA key published under algorithm id 3.'
RULE += ' Preference lists also name algorithm ids without an enum member (private use 100-110, later assignments); fingerprint subpackets of other key versions; revocation reasons and revoker algorithms outside the named codes.'
ASSUMPTIONS = ['a 0.5 s watchdog abandons (and counts) bit flips that make PGPy loop over a multi-gigabyte declared subpacket length; hangs are outside the listed properties',
               'the reference signer produces the signatures, so PGPy only acts as verifier', 'rejection at parse is an outcome, not a failure, except for '
               'the classes the statement names (unknown types, unknown flag bits, text, booleans, legal length encodings), where it is reported as '
               'acceptance failure', 'a hashed creation time and an issuer are always present (every real caller provides them)']

SIGNERS = ['ed25519-0', 'ecdsa-p256-0', 'rsa1024-0', 'rsa1024-0/3', 'dsa1024-0']
UNASSIGNED = [0, 1, 8, 13, 14, 15, 17, 18, 19, 34, 36] + list(range(38, 128))
TEXT_TYPES = [24, 26, 28]
TEXTS = [b'ascii text', 'ünï ☃ 日本'.encode(), b'latin-1 \xe9\xfc', b'\xff\xfe\x00 raw', b'']
MUST_ACCEPT = 'must-accept'


def sp(t, body, crit=False, form=None):
    return wire.build_subpacket(t, body, crit, form)


def body_for(t, a, b):
    """(body, class label, must_accept) for a well-formed subpacket of type t; a, b small ints selecting variants"""
    if t in UNASSIGNED:
        n = [0, 1, 5, 190, 191, 192, 300][a % 7]
        return bytes((b + i) & 0xFF for i in range(n)), 'opaque/len%d' % n, True
    if t in (2, 3, 9):
        return wire.u32([0, 1, 86400, 1600000000, (1 << 32) - 1][a % 5]), 'time', True
    if t in (4, 7, 25):
        v = [0, 1, 2, 0x80, 0xFF][a % 5] if b % 2 == 0 else a % 256
        return bytes([v]), 'boolean/%s' % ('01' if v in (0, 1) else 'other'), True
    if t == 5:
        return bytes([a % 256, b % 256]), 'trust', True
    if t == 6:
        return TEXTS[a % len(TEXTS)] + b'\x00', 'regex/text%d' % (a % len(TEXTS)), True
    if t in TEXT_TYPES:
        return TEXTS[a % len(TEXTS)], 'text/%d' % (a % len(TEXTS)), True
    if t == 10:
        return bytes([a % 256, b % 256]), 'placeholder', False
    if t in (11, 21, 22):
        ids = {11: [9, 8, 7, 2, 3, 4, 11, 12, 13, 1, 10], 21: [8, 9, 10, 11, 2, 1, 3], 22: [2, 1, 3, 0]}[t]
        k = a % (len(ids) + 1)
        if b % 4 == 3:
            # "array of one-octet values" (RFC 4880 5.2.3.7-9): ids without a name here are legal entries too
            # (private/experimental 100..110, reserved 5/6, hash 12/14 of later specifications)
            ids = ids[:2] + [100, 110, [5, 12, 4][t % 3]] + ids[2:]
            k = max(k, 4)
            return bytes(ids[i % len(ids)] for i in range(k)), 'preflist/unnamed-ids', True
        return bytes(ids[(b + i) % len(ids)] for i in range(k)), 'preflist/%d' % k, True
    if t == 12:
        alg = [1, 17, 19, 22, 100, 27][b % 6]
        return bytes([0x80 | (a % 0x80), alg]) + keypool.ref_public('ed25519-2').fingerprint, 'revocation-key/class%02x%s' % (0x80 | (a % 0x80), '/unnamed-alg' if alg in (100, 27) else ''), (a % 0x80) in (0, 0x40)
    if t == 16:
        return None, 'issuer', True
    if t == 20:
        flags = [b'\x80\0\0\0', b'\x00\0\0\0', b'\x80\x01\x02\x03', bytes([a % 256, 0, 0, b % 256])][a % 4]
        name = [b'n@example.org', 'ünï@example.org'.encode(), b'x'][b % 3]
        val = TEXTS[(a + b) % len(TEXTS)] or b'v'
        return flags + len(name).to_bytes(2, 'big') + len(val).to_bytes(2, 'big') + name + val, 'notation/flags%s' % flags.hex(), True
    if t in (23, 27, 30):
        n = [1, 1, 2, 4, 0][b % 5]
        return bytes((a + 37 * i) & 0xFF for i in range(n)), 'flags/%doctets' % n, True
    if t == 29:
        code = [0, 1, 2, 3, 32, 100, 110, 4][a % 8]       # 100-110 private use; an unknown code reads as "no reason" (RFC 4880 5.2.3.23)
        return bytes([code]) + TEXTS[b % len(TEXTS)], 'reason/text%d%s' % (b % len(TEXTS), '/unnamed-code' if code in (100, 110, 4) else ''), True
    if t == 31:
        return bytes([22, 8]) + bytes(32), 'target', False
    if t == 32:
        sec = keypool.ref_secret('ed25519-1')
        body = rsig.sign(sec, 0x19, 8, ('subkey', keypool.ref_public('ed25519-0'), sec.pub), keypool.std_hashed(1600000000, sec.pub.fingerprint), keypool.sp(16, sec.pub.keyid))
        return body, 'embedded', True
    if t in (33, 35):
        if t == 35 and a % 3 == 2:
            # a recipient key of a later version: version octet 6, 32-octet fingerprint (any body is well-formed under RFC 4880)
            return b'\x06' + bytes(range(32)), 'fingerprint/v6', True
        return None if t == 33 else b'\x04' + keypool.ref_public('ed25519-2').fingerprint, 'fingerprint', True
    if t == 37:
        return bytes(32 * (a % 3)), 'attested/%d' % (a % 3), True
    return bytes([a % 256]), 'other', False


def legal_forms(n):
    out = [5]
    if n < 192:
        out.append(1)
    if 192 <= n < 16320:
        out.append(2)
    return out


def build_case(c):
    """-> (Triple, descriptors) for case dict c = {signer, kind, subs:[(type, crit, a, b, formsel)], halg, issuer_hashed}"""
    kid = c['signer']
    # 'rsa1024-0/3' is the same key published under the deprecated RSA sign-only algorithm id (as old PGP keys are)
    alias = None
    if '/' in kid:
        kid, alias = kid.split('/')[0], int(kid.split('/')[1])
    sec = keypool.ref_secret(kid, alg=alias)
    pub = sec.pub
    parts = []
    descr = []
    for (t, crit, a, b, fs) in c['subs']:
        body, cls, must = body_for(t, a, b)
        if body is None:
            body = pub.keyid if t == 16 else b'\x04' + pub.fingerprint
        forms = legal_forms(len(body) + 1)
        form = forms[fs % len(forms)]
        shortest = 1 if len(body) + 1 < 192 else 2 if len(body) + 1 < 16320 else 5
        parts.append(sp(t, body, bool(crit), form))
        descr.append({'type': t, 'critical': bool(crit), 'class': cls, 'len': len(body), 'lenform': form, 'nonminimal': form != shortest, 'must_accept': must})
    created = sp(2, wire.u32(1600000000), form=[1, 5][c.get('ctform', 0) % 2])
    pos = c.get('cpos', 0) % (len(parts) + 1)
    parts.insert(pos, created)
    hashed = b''.join(parts)
    unh = b''
    if c.get('issuer_hashed'):
        hashed += sp(16, pub.keyid)
    else:
        unh = sp(16, pub.keyid)
    t = sigkit.Triple()
    t.label = 'c05/' + c['kind']
    t.signer_cert = keypool.ref_cert(kid, secret=False, alg=alias)
    t.signer_body = pub.body
    if c['kind'] == 'doc':
        t.kind, t.doc, st_ = 'doc', b'hashed area verbatim', 0x00
    else:
        tp = keypool.ref_public('ed25519-2' if kid != 'ed25519-2' else 'ed25519-0')
        t.kind, t.tprimary, t.uid_kind, t.uid_data, st_ = 'cert', tp.body, 'uid', 'Some Üser <u@example.org>'.encode(), 0x13
    t.sig = rsig.sign(sec, st_, c['halg'], t.ref_subject(), hashed, unh)
    return t, descr


def evaluate(c, rec, flips='sample'):
    import pgpy
    t, descr = build_case(c)
    if not t.ref_verdict(check_left16=True):
        raise harness.HarnessError('reference rejects its own signature')
    s = rsig.parse_sig_body(t.sig)
    want_hash = rsig.hash_input(s, t.ref_subject())
    must = all(d['must_accept'] for d in descr)
    labels = ['kind/' + c['kind'], 'signer/' + c['signer'], 'nsubs/%d' % len(descr)]
    for d in descr:
        labels += ['type/%d' % d['type'], 'class/' + d['class'].split('/')[0], 'lenform/%d%s' % (d['lenform'], '-nonminimal' if d['nonminimal'] else ''), 'critical/%s' % d['critical']]
    keep = []
    try:
        sig = t.pg_sig()
        subj = t.pg_subject()
        if isinstance(subj, tuple):
            keep.append(subj[1])
            subj = subj[0]
        accepted = sig._signature is not None
    except Exception as e:   # noqa
        accepted = False
        exc = e
    key = tuple(sorted((d['type'], d['critical'], d['lenform'], d['class']) for d in descr)) + (c['kind'],)
    if not accepted:
        rec.case(key, False, labels + ['outcome/rejected-at-parse'])
        for d in descr:
            rec.note('parse-rejected/type%d/%s' % (d['type'], d['class'].split('/')[0]))
        if must:
            cause = 'rejected/' + '+'.join(sorted({'type%d:%s' % (d['type'], d['class'].split('/')[0]) for d in descr}))[:80]
            if len(descr) == 1:
                d = descr[0]
                cause = 'rejected/%s%s' % (d['class'].split('/')[0], '/nonminimal-length' if d['nonminimal'] else '')
            rec.finding('acceptance', cause, c, repr(exc)[:300])
        return
    rec.case(key, bool(descr), labels + ['outcome/accepted'], {'kind': c['kind'], 'signer': c['signer'], 'hashed_subpackets': descr, 'hashed_area_len': len(s.hashed_area)})
    cause_tag = descr[0]['class'].split('/')[0] if len(descr) == 1 else 'multi'
    # (1) verbatim
    try:
        got = bytes(sig.hashdata(subj))
    except Exception as e:   # noqa
        rec.finding('verbatim', 'hashdata-exception/' + cause_tag, c, repr(e))
        return
    if got != want_hash:
        rec.finding('verbatim', 'hashed-octets-differ/' + cause_tag, c, 'PGPy hashes %d octets, the received region + subject + trailer is %d octets; tails %s vs %s' % (
            len(got), len(want_hash), got[-24:].hex(), want_hash[-24:].hex()))
    # (2) verifies; a copy verifies; re-export is identical
    try:
        ver = t.pg_verifier()
        if not ver.verify(subj, sig):
            rec.finding('verify', 'valid-foreign-signature-rejected/' + cause_tag, c, '')
        if not ver.verify(subj, copy.copy(sig)):
            rec.finding('verify', 'copy-rejected/' + cause_tag, c, 'copy.copy(signature) no longer verifies')
        out = wire.split_packets(bytes(sig))[0].body
        s2 = rsig.parse_sig_body(out)
        if s2.hashed_prefix != s.hashed_prefix:
            rec.finding('verbatim', 're-export-changes-hashed-area/' + cause_tag, c, '%s -> %s' % (s.hashed_area.hex()[:80], s2.hashed_area.hex()[:80]))
        exportable = not any(x.type == 4 and x.body[:1] == b'\x00' for x in s.hashed)
        if t.kind == 'cert' and exportable:
            # carried in a key through export/import and the public-key derivation of a private key
            blob = wire.build_packet(6, t.tprimary) + wire.build_packet(13, t.uid_data) + wire.build_packet(2, t.sig)
            k = keypool.pgpy_key(blob)
            k2 = keypool.pgpy_key(bytes(copy.copy(k)))
            if not ver.verify(k2):
                rec.finding('verify', 'after-key-copy-export-import/' + cause_tag, c, '')
    except Exception as e:   # noqa
        rec.finding('verify', 'exception/%s/%s' % (cause_tag, harness.exc_key(e)), c, repr(e))
        return
    # (3) bit flips inside the hashed region (version octet .. end of hashed area)
    region = len(s.hashed_prefix)
    nbits = region * 8
    if flips == 'all' and region <= 80:
        bits = range(nbits)
    else:
        step = max(1, nbits // 16)
        # the four fixed octets (version, type, public-key algorithm, hash algorithm) are always flipped bit by bit
        bits = sorted(set(range(32)) | set(range((c.get('a', 0) * 7) % step, nbits, step)))
    for bit in bits:
        mb = bytearray(t.sig)
        mb[bit // 8] ^= 1 << (bit % 8)
        # only the signature packet changes: verifier and subject objects are reused
        try:
            with harness.watchdog(0.5):
                msig = pgpy.PGPSignature.from_blob(wire.build_packet(2, bytes(mb)))
                v = 'truthy' if ver.verify(subj, msig) else 'falsy'
        except harness.Hang:
            v = 'abandoned-hang'      # e.g. a flipped 5-octet subpacket length of 2^31: not a property violation, counted
        except Exception:   # noqa
            v = 'raised'
        rec.note('flip/' + v)
        if v == 'truthy':
            rec.finding('bitflip', 'flipped-hashed-bit-still-verifies/' + cause_tag, dict(c, flipbit=bit), 'bit %d of the hashed region (octet %d)' % (bit, bit // 8))


def w_cover(arg):
    part, nparts, tier = arg
    rec = harness.Rec()
    i = 0
    for t in range(128):
        variants = 7 if t in UNASSIGNED else 5
        for crit in (0, 1):
            for v in range(variants):
                for fs in (0, 1):
                    i += 1
                    if i % nparts != part:
                        continue
                    if t == 2:
                        continue
                    c = {'signer': SIGNERS[i % 5] if (tier != 'quick' or i % 7 == 0) else SIGNERS[i % 2], 'kind': ['doc', 'cert'][i % 2], 'halg': 8, 'subs': [(t, crit, v, i, fs)], 'issuer_hashed': bool(i % 3 == 0),
                         'ctform': i, 'cpos': i, 'a': i}
                    evaluate(c, rec, 'all' if i % 4 == 0 else 'sample')
    # every value of every flag octet and boolean octet
    for t in (27, 30, 23, 4, 7, 25):
        for v in range(256):
            i += 1
            if i % nparts != part:
                continue
            c = {'signer': 'ed25519-0', 'kind': 'doc', 'halg': 8, 'subs': [(t, 0, v, 1 if t in (4, 7, 25) else 0, 0)], 'issuer_hashed': False, 'a': v}
            evaluate(c, rec, 'sample')
    rec.exhaustive['types 0..127 x critical x body variants x length forms; all 256 values of flag/boolean octets'] = True
    return rec


def case_strategy():
    sub = st.tuples(st.integers(0, 127).filter(lambda t: t != 2), st.integers(0, 1), st.integers(0, 300), st.integers(0, 300), st.integers(0, 2))
    return st.fixed_dictionaries({'signer': st.sampled_from(SIGNERS), 'kind': st.sampled_from(['doc', 'cert']), 'halg': st.sampled_from([8, 2, 10]),
                                  'subs': st.lists(sub, min_size=1, max_size=8), 'issuer_hashed': st.booleans(), 'ctform': st.integers(0, 1), 'cpos': st.integers(0, 8),
                                  'a': st.integers(0, 50)})


def w_random(arg):
    seed, idx, n, bsec = arg
    rec = harness.Rec()
    harness.run_given(case_strategy(), lambda c: evaluate(dict(c, subs=[tuple(x) for x in c['subs']]), rec, 'sample'), harness.derive_seed('C05', seed, idx), n, harness.Budget(bsec), rec)
    return rec


def run(tier, seed):
    tasks = [('w_cover', (p, 12, tier)) for p in range(12)]
    n, bsec = (60, 60) if tier == 'quick' else (2500, 900)
    for i in range(8 if tier == 'quick' else 24):
        tasks.append(('w_random', (seed, i, n, bsec)))
    return harness.pmap('vpgpy.props.c05', 'dispatch', tasks)


def dispatch(task):
    return globals()[task[0]](task[1])


def replay(case):
    rec = harness.Rec()
    c = dict(case)
    c['subs'] = [tuple(x) for x in c['subs']]
    fb = c.pop('flipbit', None)
    evaluate(c, rec, 'all' if fb is not None else 'sample')
    return [(f['clause'], f['cause'], f['detail']) for f in rec.findings]
