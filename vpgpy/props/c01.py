"""C01 -- signature soundness: verification never accepts what was not signed.

Metamorphic search: build a valid (subject, signature, key) triple through PGPy's API, check the positive
control, apply one *semantic* mutation to subject, signature packet or verifying key at octet level, rebuild
PGPy objects from the mutated octets, and require the verdict to be falsy or an exception.
The reference verifier (refpgp.sig) filters out mutations that are not semantic (it still accepts them)."""
from hypothesis import strategies as st

from .. import harness, keypool, sigkit
from ..refpgp import wire, keys as rkeys, sig as rsig, grammar, armor

RULE = ('Hypothesis draws (signing key from a 25-key pool of RSA/DSA/ECDSA/EdDSA keys incl. signing subkeys, hash, '
        'signature kind out of 21 covering types 00 01 02 40 10-13 16 18 19 1F 20 28 30, carrier detached / in message / '
        'cleartext / in key, mutation class out of 30, position parameters); the valid triple is made with PGPy, mutated by '
        'byte surgery, and PGPy must not return a truthy verification. A case is non-trivial when the positive control was '
        'truthy, the reference rejects the mutated triple, and PGPy reached a verdict or raised; distinct by (algorithm, hash, '
        'kind, carrier, mutation class, target field).')
RULE += ' Round-2 class: issuer re-pointed to an encryption-only (ECDH) subkey of the verifying certificate. Round-3 / audit classes: a subject presented to a standalone or timestamp signature; the same photo attribute in another encoding (length form, reserved octets); undefined bits in flag subpackets; verification of a copy.copy() of the signature object as a further carrier.'
RULE += ' Third-party confirmations (0x50) by the independent signer over signature A are presented with A, another signature, a document, a key and a user id.'
RULE += ' Worker transcoded: a cleartext-signed file and its transcoding between UTF-8 and Latin-1 are different documents (each verifies only as signed).'
ASSUMPTIONS = ['refpgp.sig (independent 5.2.4 implementation, self-tested on 62 GnuPG-made signatures) decides whether a mutation is semantic; '
               'mutations it still accepts are skipped as trivial', 'the left-16-bits field is not asserted (not named by the statement)',
               'DSA/ECDSA (r, n-s) malleability is excluded from the mutation set by construction',
               'any exception from PGPy counts as "an error is raised"']

SIG_MUTS = ['type', 'pkalg', 'halg', 'hashed-bit', 'hashed-len', 'sub-delete', 'sub-dup', 'sub-swap', 'sub-move-unhashed',
            'sub-value', 'sub-add', 'sub-unknown-bit', 'mpi-bit', 'mpi-plus1', 'mpi-zero', 'mpi-swap', 'mpi-trunc', 'mpi-high', 'version']
SUBJ_MUTS = ['none-with-subject', 'ua-reencode', 'doc-as-message', 'key-as-uid', 'doc-bit', 'doc-insert', 'doc-delete', 'doc-swap', 'text-eol', 'uid-char', 'uid-append', 'uid-as-ua', 'key-time', 'key-material',
             'key-alg', 'key-other', 'subkey-other', 'subkey-swap-roles', 'subkey-material']
KEY_MUTS = ['key-otherkey-reissue', 'key-bit-reissue', 'key-primary-for-subkey', 'key-encsubkey-reissue']
ALL_MUTS = SIG_MUTS + SUBJ_MUTS + KEY_MUTS
_KEYSUBJ = ['key-time', 'key-material', 'key-alg', 'key-other']
APPLICABLE = {
    'doc': SIG_MUTS + ['doc-bit', 'doc-insert', 'doc-delete', 'doc-swap', 'doc-as-message'] + KEY_MUTS,
    'text': SIG_MUTS + ['doc-bit', 'doc-insert', 'doc-delete', 'doc-swap', 'text-eol', 'text-eol', 'doc-as-message'] + KEY_MUTS,
    'none': SIG_MUTS + KEY_MUTS + ['none-with-subject', 'none-with-subject'],
    'cert': SIG_MUTS + ['uid-char', 'uid-append', 'uid-as-ua', 'ua-reencode'] + _KEYSUBJ + KEY_MUTS,
    'key': SIG_MUTS + _KEYSUBJ + ['key-as-uid'] + KEY_MUTS,
    'subkey': SIG_MUTS + _KEYSUBJ + ['subkey-other', 'subkey-swap-roles', 'subkey-material', 'key-as-uid'] + KEY_MUTS,
}
LABEL_KIND = {'doc': 'doc', 'doc-msg': 'doc', 'msg-u': 'doc', 'msg-t': 'doc', 'text': 'text', 'text-cleartext': 'text', 'standalone': 'none', 'timestamp': 'none',
              'cert-10': 'cert', 'cert-11': 'cert', 'cert-12': 'cert', 'cert-13': 'cert', 'cert-ua': 'cert', 'cert-self': 'cert',
              'attest': 'cert', 'rev-uid': 'cert', 'direct-self': 'key', 'direct-3rd': 'key', 'revoker': 'key', 'rev-key': 'key',
              'bind': 'subkey', 'bind-signing': 'subkey', 'rev-subkey': 'subkey', 'pkbind-19': 'subkey'}

TYPE_ALTS = [0x00, 0x01, 0x02, 0x10, 0x11, 0x12, 0x13, 0x16, 0x18, 0x19, 0x1F, 0x20, 0x28, 0x30, 0x40, 0x50]


def case_strategy(fast_only=False):
    kids = keypool.signing_ids(fast_only)
    return st.fixed_dictionaries({
        'kid': st.sampled_from(kids),
        'halg': st.sampled_from(sigkit.HASH_IDS),
        'label': st.sampled_from(sigkit.KINDS + ['pkbind-19']),
        'subkey': st.sampled_from([None, None, 'ed25519-1', 'ecdsa-p256-1', 'rsa1024-1']),
        'mut': st.integers(0, 10 ** 6),
        'a': st.integers(0, 1 << 20),
        'b': st.integers(0, 1 << 20),
        'doc': st.one_of(st.binary(max_size=80), st.sampled_from([b'', b'a', b'line one\nline two\r\nline three', b'\x00' * 64]),
                         st.text(alphabet='ab \n\r\t-', max_size=30).map(lambda x: x.encode())),
        'carrier': st.sampled_from(['detached', 'detached', 'inside', 'copy']),
    })


def _rebuild_sig(s, sigtype=None, pkalg=None, halg=None, hashed=None, unhashed=None, mpis=None, version=4):
    body = rsig.build_sig_body(s.sigtype if sigtype is None else sigtype, s.pkalg if pkalg is None else pkalg,
                               s.halg if halg is None else halg, s.hashed_area if hashed is None else hashed,
                               s.unhashed_area if unhashed is None else unhashed, s.left16, s.mpis if mpis is None else mpis)
    if version != 4:
        body = bytes([version]) + body[1:]
    return body


def _retarget_issuer(sigbody, keyid):
    """rewrite the (unhashed) issuer so that PGPy routes the check to the key with this id"""
    s = rsig.parse_sig_body(sigbody)
    subs = [x for x in s.unhashed if x.type != 16]
    un = b''.join(x.raw for x in subs) + wire.build_subpacket(16, keyid)
    return _rebuild_sig(s, unhashed=un)


def mutate(t, mut, a, b):
    """-> (mutated triple, target-field label, verifying cert override or None) or None when not applicable"""
    m = t.clone()
    cert = None
    if mut in SIG_MUTS:
        s = rsig.parse_sig_body(t.sig)
        if mut == 'type':
            alts = [x for x in TYPE_ALTS if x != s.sigtype]
            m.sig = _rebuild_sig(s, sigtype=alts[a % len(alts)])
            return m, 'type->%02x' % alts[a % len(alts)], None
        if mut == 'pkalg':
            alts = [x for x in (1, 2, 3, 17, 19, 22) if x != s.pkalg]
            if s.pkalg in (1, 3) and a % 2 == 0:
                alts = [3 if s.pkalg == 1 else 1]
            m.sig = _rebuild_sig(s, pkalg=alts[a % len(alts)])
            return m, 'pkalg', None
        if mut == 'halg':
            alts = [x for x in (1, 2, 8, 9, 10, 11) if x != s.halg]
            m.sig = _rebuild_sig(s, halg=alts[a % len(alts)])
            return m, 'halg', None
        if mut == 'version':
            m.sig = _rebuild_sig(s, version=(3, 5, 2)[a % 3])
            return m, 'version', None
        if mut == 'hashed-bit':
            if not s.hashed_area:
                return None
            pos = a % len(s.hashed_area)
            h = bytearray(s.hashed_area)
            h[pos] ^= 1 << (b % 8)
            m.sig = _rebuild_sig(s, hashed=bytes(h))
            return m, 'hashed-bit', None
        if mut == 'sub-unknown-bit':
            # an undefined bit set in a flags / boolean subpacket: parsers that keep only what they understand normalise it away
            cand = [x for x in s.hashed if x.type in (27, 30, 23, 7, 4, 25, 21, 11, 22) and x.body]
            if not cand:
                return None
            x = cand[a % len(cand)]
            nb = bytearray(x.body)
            nb[0] ^= (0x40, 0x80, 0x20)[b % 3] if x.type in (27, 30, 23) else 0x02 if x.type in (7, 4, 25) else 0x40
            if bytes(nb) == x.body:
                return None
            newraw = wire.build_subpacket(x.type, bytes(nb), x.critical, x.lenform)
            m.sig = _rebuild_sig(s, hashed=s.hashed_area.replace(x.raw, newraw, 1))
            return m, 'sub-unknown-bit/sub%d' % x.type, None
        if mut == 'hashed-len':
            # move the boundary between the hashed and the unhashed area by one subpacket
            if len(s.hashed) < 2:
                return None
            last = s.hashed[-1]
            m.sig = _rebuild_sig(s, hashed=s.hashed_area[:-len(last.raw)], unhashed=last.raw + s.unhashed_area)
            return m, 'hashed-len/sub%d' % last.type, None
        if mut in ('sub-delete', 'sub-dup', 'sub-move-unhashed', 'sub-value'):
            if not s.hashed:
                return None
            i = a % len(s.hashed)
            x = s.hashed[i]
            raws = [y.raw for y in s.hashed]
            un = s.unhashed_area
            if mut == 'sub-delete':
                raws.pop(i)
            elif mut == 'sub-dup':
                raws.insert(i, x.raw)
            elif mut == 'sub-move-unhashed':
                raws.pop(i)
                un = x.raw + un
            else:
                if not x.body:
                    return None
                bb = bytearray(x.body)
                bb[b % len(bb)] ^= 1 << ((b >> 8) % 8)
                raws[i] = wire.build_subpacket(x.type, bytes(bb), x.critical)
            m.sig = _rebuild_sig(s, hashed=b''.join(raws), unhashed=un)
            return m, '%s/sub%d' % (mut, x.type), None
        if mut == 'sub-swap':
            if len(s.hashed) < 2:
                return None
            i = a % (len(s.hashed) - 1)
            raws = [y.raw for y in s.hashed]
            if raws[i] == raws[i + 1]:
                return None
            raws[i], raws[i + 1] = raws[i + 1], raws[i]
            m.sig = _rebuild_sig(s, hashed=b''.join(raws))
            return m, 'sub-swap', None
        if mut == 'sub-add':
            extra = [wire.build_subpacket(20, b'\x80\0\0\0\0\x01\0\x01ab'), wire.build_subpacket(3, wire.u32(86400)),
                     wire.build_subpacket(7, b'\x00'), wire.build_subpacket(27, b'\x03')][a % 4]
            m.sig = _rebuild_sig(s, hashed=s.hashed_area + extra)
            return m, 'sub-add', None
        # signature integers
        mp = list(s.mpis)
        if not mp:
            return None
        i = a % len(mp)
        if mut == 'mpi-bit':
            bits = max(mp[i].bit_length(), 8)
            mp[i] ^= 1 << (b % bits)
        elif mut == 'mpi-plus1':
            mp[i] += 1
        elif mut == 'mpi-zero':
            mp[i] = 0
        elif mut == 'mpi-swap':
            if len(mp) < 2 or mp[0] == mp[1]:
                return None
            mp[0], mp[1] = mp[1], mp[0]
        elif mut == 'mpi-trunc':
            mp[i] >>= 8
        elif mut == 'mpi-high':
            # same low-order octets, extra octets above the width the algorithm uses (modulus / group order size)
            spub = rkeys.parse_public_body(t.signer_body)[0]
            if spub.alg in rkeys.RSA_ALGS:
                width = (spub.params['n'].bit_length() + 7) // 8
            elif spub.alg == rkeys.DSA:
                width = (spub.params['q'].bit_length() + 7) // 8
            else:
                width = (rkeys.CURVE_BITS.get(spub.curve, 256) + 7) // 8
            mp[i] += (1 + b % 255) << (8 * (width + (b >> 8) % 3))
        m.sig = _rebuild_sig(s, mpis=mp)
        return m, mut, None

    if mut in SUBJ_MUTS:
        if mut == 'none-with-subject':
            # a standalone / timestamp signature covers no document at all: presented with one, it is not a signature over it
            if t.kind != 'none':
                return None
            m.kind = 'doc'
            m.doc = [b'I owe Mallory 1000 EUR', b'', b'\x00', b'any other document\n' * 3][a % 4] if a % 4 != 1 else b'x'
            return m, mut, None
        if mut == 'doc-as-message':
            # another document, handed over as a message object together with the detached signature
            if t.kind not in ('doc', 'text'):
                return None
            m.doc = [b'pay 1000 EUR to Mallory', b'another text\n', t.doc + b' ']['%d' % a < '5' and a % 3 or a % 3] if False else [b'pay 1000 EUR to Mallory', b'another text\n', bytes(t.doc) + b'.'][a % 3]
            m.as_message = ['cleartext', 'literal'][b % 2]
            return m, 'doc-as-message/' + m.as_message, None
        if mut == 'key-as-uid':
            # a user id whose octets are those of the key packet body, presented in place of the key
            if t.kind not in ('key', 'subkey'):
                return None
            m.kind, m.uid_kind = 'cert', 'uid'
            m.uid_data = bytes(t.tprimary if t.kind == 'key' else t.tsubkey)
            return m, 'key-as-uid', None
        if mut == 'ua-reencode':
            # the same photo in another encoding of the attribute packet: other length form, other reserved octets, other header length
            if t.kind != 'cert' or t.uid_kind != 'ua':
                return None
            n, used = wire.sub_len_decode(t.uid_data, 0)
            rest = bytearray(t.uid_data[used:])
            v = a % 4
            if v == 0:
                m.uid_data = wire.sub_len_encode(n, 5) + bytes(rest)
            elif v == 1 and len(rest) > 10:
                rest[8 + b % 8] ^= 0x20                    # one of the 12 reserved octets of the image header
                m.uid_data = t.uid_data[:used] + bytes(rest)
            elif v == 2 and len(rest) > 3:
                rest[1] ^= 0x01                            # image header length field (little endian, 0x10 0x00)
                m.uid_data = t.uid_data[:used] + bytes(rest)
            else:
                rest[3] ^= 0x02                            # header version
                m.uid_data = t.uid_data[:used] + bytes(rest)
            if m.uid_data == t.uid_data:
                return None
            return m, 'ua-reencode/%d' % v, None
        if mut.startswith('doc-') or mut == 'text-eol':
            if t.kind not in ('doc', 'text'):
                return None
            d = bytearray(t.doc)
            if mut == 'doc-bit':
                if not d:
                    return None
                pos = a % len(d)
                d[pos] ^= 1 << (b % 8)
                if t.kind == 'text' and (d[pos] in (10, 13) or t.doc[pos] in (10, 13)):
                    return None
            elif mut == 'doc-insert':
                d.insert(a % (len(d) + 1), 0x41 + b % 26)
            elif mut == 'doc-delete':
                if not d:
                    return None
                pos = a % len(d)
                if t.kind == 'text' and d[pos] in (10, 13):
                    return None
                del d[pos]
            elif mut == 'text-eol':
                # insert or delete a CR / LF octet; the reference decides whether the canonical text changes
                if t.kind != 'text':
                    return None
                eols = [i for i, c in enumerate(d) if c in (10, 13)]
                op = b % 4
                if op == 0 and eols:
                    d.insert(eols[a % len(eols)], 13)
                elif op == 1:
                    d.append(13 if a % 2 else 10)
                elif op == 2 and eols:
                    del d[eols[a % len(eols)]]
                else:
                    d.insert(a % (len(d) + 1), 13 if a % 3 else 10)
            elif mut == 'doc-swap':
                if len(d) < 2:
                    return None
                i, j = a % len(d), b % len(d)
                if d[i] == d[j] or (t.kind == 'text' and (d[i] in (10, 13) or d[j] in (10, 13))):
                    return None
                d[i], d[j] = d[j], d[i]
            m.doc = bytes(d)
            return m, mut, None
        if mut.startswith('uid-'):
            if t.kind != 'cert':
                return None
            if mut == 'uid-char':
                d = bytearray(t.uid_data)
                if t.uid_kind == 'ua':
                    d[-1 - (a % 40)] ^= 1 << (b % 8)
                else:
                    pos = a % len(d)
                    d[pos] = 0x61 + ((d[pos] + 1 + b % 20) % 26)
                    if bytes(d) == t.uid_data:
                        return None
                m.uid_data = bytes(d)
            elif mut == 'uid-append':
                if t.uid_kind == 'ua':
                    return None
                m.uid_data = t.uid_data + b' x'
            elif mut == 'uid-as-ua':
                m.uid_kind = 'ua' if t.uid_kind == 'uid' else 'uid'
            return m, mut + '/' + t.uid_kind, None
        # key material of the target
        if t.kind not in ('cert', 'key', 'subkey'):
            return None
        if mut == 'key-time':
            d = bytearray(t.tprimary)
            ts = int.from_bytes(d[1:5], 'big') + (1 if a % 2 else -1)
            d[1:5] = ts.to_bytes(4, 'big')
            m.tprimary = bytes(d)
        elif mut == 'key-material':
            # any octet of the public material except the MPI bit-count fields: a non-canonical bit count denotes
            # the same integers (same key material), so it is not a semantic change
            d = bytearray(t.tprimary)
            skip = set(rkeys.mpi_header_offsets(t.tprimary))
            cand = [i for i in range(6, len(d)) if i not in skip]
            pos = cand[a % len(cand)]
            d[pos] ^= 1 << (b % 8)
            m.tprimary = bytes(d)
        elif mut == 'key-alg':
            d = bytearray(t.tprimary)
            if d[5] not in (1, 2, 3):
                return None
            d[5] = {1: 3, 3: 1, 2: 1}[d[5]]
            m.tprimary = bytes(d)
        elif mut == 'key-other':
            pool = [k for k in keypool.ids() if keypool.public_body(k) != t.tprimary and keypool.pool()[k]['alg'] != 18]
            m.tprimary = keypool.public_body(pool[a % len(pool)])
        elif mut == 'subkey-other':
            if t.kind != 'subkey':
                return None
            pool = [k for k in keypool.ids() if keypool.public_body(k) not in (t.tsubkey, t.tprimary)]
            m.tsubkey = keypool.public_body(pool[a % len(pool)])
        elif mut == 'subkey-swap-roles':
            if t.kind != 'subkey':
                return None
            m.tprimary, m.tsubkey = t.tsubkey, t.tprimary
        elif mut == 'subkey-material':
            if t.kind != 'subkey':
                return None
            d = bytearray(t.tsubkey)
            skip = set(rkeys.mpi_header_offsets(t.tsubkey)) | {0, 5}
            cand = [i for i in range(1, len(d)) if i not in skip]
            pos = cand[a % len(cand)]
            d[pos] ^= 1 << (b % 8)
            m.tsubkey = bytes(d)
        # a self-signature's signer must stay the original key: keep the verifier untouched
        return m, mut, None

    # verifying-key mutations: the check is routed (issuer rewritten) to a key that did not sign
    spub = rkeys.parse_public_body(t.signer_body)[0]
    if mut == 'key-otherkey-reissue':
        same = [k for k in keypool.signing_ids() if keypool.pool()[k]['alg'] == spub.alg and keypool.public_body(k) != t.signer_body]
        if not same:
            return None
        other = same[a % len(same)]
        opub = keypool.ref_public(other)
        m.sig = _retarget_issuer(t.sig, opub.keyid)
        m.signer_body = opub.body
        cert = keypool.ref_cert(other, secret=False)
        return m, mut, cert
    if mut == 'key-encsubkey-reissue':
        # routed to an encryption-only (ECDH / ElGamal) subkey of the verifying certificate: a key that cannot have signed at all
        encs = [k for k in sorted(keypool.pool()) if keypool.pool()[k]['alg'] in (16, 18)]
        other = encs[a % len(encs)]
        opub = keypool.ref_public(other)
        m.sig = _retarget_issuer(t.sig, opub.keyid)
        m.signer_body = opub.body
        prim = [k for k in ('ed25519-2', 'rsa1024-1', 'ecdsa-p256-1') if keypool.public_body(k) != t.signer_body][b % 2]
        cert = keypool.ref_cert(prim, subkeys=((other, 0x0C),), secret=False)
        return m, mut + '/alg%d' % opub.alg, cert
    if mut == 'key-bit-reissue':
        d = bytearray(t.signer_body)
        skip = set(rkeys.mpi_header_offsets(t.signer_body))
        cand = [i for i in range(6, len(d)) if i not in skip]
        pos = cand[a % len(cand)]
        d[pos] ^= 1 << (b % 8)
        try:
            npub = rkeys.parse_public_body(bytes(d))[0]
            if len(npub.body) != len(d):
                return None
        except Exception:   # noqa
            return None
        m.sig = _retarget_issuer(t.sig, npub.keyid)
        m.signer_body = bytes(d)
        cert = wire.build_packet(6, bytes(d)) + b''.join(p.raw for p in wire.split_packets(keypool.ref_cert('ed25519-0', secret=False))[1:2])
        return m, mut, cert
    if mut == 'key-primary-for-subkey':
        primary_body = sigkit.body_of(t.signer_cert, 0)
        if primary_body == t.signer_body:
            return None
        ppub = rkeys.parse_public_body(primary_body)[0]
        m.sig = _retarget_issuer(t.sig, ppub.keyid)
        m.signer_body = primary_body
        return m, mut, None
    return None


def _inside_carrier(t, m, where):
    """Verdict of PGPy for the mutated triple carried inside a message / cleartext block / key.
    Returns ('truthy'|'falsy'|'raised', detail, ref_rejects) or None if this carrier is not applicable."""
    import pgpy
    v = None
    try:
        if t.label in ('doc-msg', 'msg-u', 'msg-t'):
            lit = wire.build_packet(11, grammar.build_literal({'doc-msg': 0x62, 'msg-u': 0x75, 'msg-t': 0x74}[t.label], b'', 0, m.doc))
            s = rsig.parse_sig_body(m.sig)
            blob = lit + wire.build_packet(2, m.sig)
            msg = pgpy.PGPMessage.from_blob(blob)
            v = t.pg_verifier().verify(msg)
        elif t.kind == 'none' and m.kind == 'doc':
            blob = wire.build_packet(11, grammar.build_literal(0x62, b'', 0, m.doc)) + wire.build_packet(2, m.sig)
            v = t.pg_verifier().verify(pgpy.PGPMessage.from_blob(blob))
        elif t.label == 'text-cleartext':
            try:
                text = m.doc.decode('utf-8')
            except UnicodeDecodeError:
                return None
            hname = sigkit.HASHES.get(rsig.parse_sig_body(m.sig).halg, 'SHA256')
            txt = armor.write_cleartext(text, wire.build_packet(2, m.sig), [hname])
            msg = pgpy.PGPMessage.from_blob(txt)
            if m.doc == t.doc and msg.message != text:
                return None     # cleartext framing itself altered the text: that is C11's subject
            v = t.pg_verifier().verify(msg)
        elif m.kind == 'cert':
            blob = wire.build_packet(6, m.tprimary) + wire.build_packet(13 if m.uid_kind == 'uid' else 17, m.uid_data) + wire.build_packet(2, m.sig)
            v = t.pg_verifier().verify(keypool.pgpy_key(blob))
        elif m.kind == 'key':
            blob = wire.build_packet(6, m.tprimary) + wire.build_packet(2, m.sig)
            v = t.pg_verifier().verify(keypool.pgpy_key(blob))
        elif m.kind == 'subkey' and t.label != 'pkbind-19':
            blob = wire.build_packet(6, m.tprimary) + wire.build_packet(14, m.tsubkey) + wire.build_packet(2, m.sig)
            v = t.pg_verifier().verify(keypool.pgpy_key(blob))
        else:
            return None
        return ('truthy' if v else 'falsy'), v
    except Exception as e:   # noqa
        return 'raised', e


def evaluate(case, rec):
    label = case['label']
    if isinstance(case['mut'], int):
        # the mutation is drawn from the classes applicable to this kind of subject (construction, not rejection)
        app = APPLICABLE[LABEL_KIND[label]]
        case = dict(case, mut=app[case['mut'] % len(app)])
    base_label = 'bind-signing' if label == 'pkbind-19' else label
    subkey = case['subkey'] if base_label in ('doc', 'doc-msg', 'msg-u', 'msg-t', 'text', 'text-cleartext', 'standalone', 'timestamp') else None
    if subkey == case['kid'] or (subkey and keypool.pool()[subkey]['alg'] == 1 and keypool.pool()[case['kid']]['alg'] == 1 and False):
        subkey = None
    doc = bytes.fromhex(case['doc']) if isinstance(case['doc'], str) else case['doc']
    if base_label.startswith('text'):
        doc = doc.decode('latin-1').encode('utf-8')
    try:
        t = sigkit.make_triple(base_label, case['kid'], case['halg'], doc=doc, signing_subkey=subkey)
        if label == 'pkbind-19':
            if not t.embedded:
                rec.note('void/no-embedded')
                return
            t = sigkit.embedded_triple(t)
    except Exception as e:   # noqa
        rec.note('rejected-config/%s/%s' % (base_label, harness.exc_key(e)))
        rec.case(None, False, ('config-rejected',))
        return
    alg = rkeys.parse_public_body(t.signer_body)[0]
    algname = {1: 'RSA', 17: 'DSA', 19: 'ECDSA-' + str(alg.curve), 22: 'EdDSA'}.get(alg.alg, str(alg.alg))
    pv, pdet = t.pg_verdict()
    if pv != 'truthy':
        # positive control failed: completeness is C02's subject, not a soundness violation
        rec.note('void/positive-control-%s' % pv)
        rec.case(None, False, ('void',))
        return
    base_ref = t.ref_verdict()
    r = mutate(t, case['mut'], case['a'], case['b'])
    if r is None:
        rec.case(None, False, ('mutation-not-applicable',))
        return
    m, field, cert = r
    ref_ok = m.ref_verdict()
    if ref_ok:
        rec.case(None, False, ('trivial/ref-still-accepts/' + case['mut'],))
        return
    carrier = case['carrier']
    res = None
    if carrier == 'inside' and cert is None and label == 'text-cleartext' and m.sig == t.sig:
        # inside the cleartext framework the signed text is the 7.1 canonical form (trailing blanks / CR at line ends are
        # not part of it): a mutation that leaves that form unchanged is not semantic for this carrier
        try:
            if armor.cleartext_signed_octets(m.doc.decode('utf-8')) == armor.cleartext_signed_octets(t.doc.decode('utf-8')):
                carrier = 'detached'
        except UnicodeDecodeError:
            carrier = 'detached'
    if carrier == 'inside' and cert is None:
        res = _inside_carrier(t, m, label)
        if res is None:
            carrier = 'detached'
    elif carrier != 'copy':
        carrier = 'detached'
    if res is None:
        res = m.pg_verdict(cert, copied=(carrier == 'copy'))
    verdict, det = res
    key = (algname, case['halg'], label, carrier, case['mut'], field)
    rec.case(key, True, ('kind/' + label, 'mut/' + case['mut'], 'alg/' + algname, 'carrier/' + carrier, 'outcome/' + verdict,
                         'ref-baseline/%s' % base_ref),
             {'key': case['kid'], 'alg': algname, 'hash': sigkit.HASHES[case['halg']], 'kind': label, 'carrier': carrier,
              'mutation': case['mut'], 'field': field, 'pgpy': verdict})
    if verdict == 'truthy':
        c = dict(case)
        c['doc'] = doc.hex() if not base_label.startswith('text') else bytes(case['doc'] if isinstance(case['doc'], bytes) else bytes.fromhex(case['doc'])).hex()
        cause = '%s/%s' % (label, case['mut'])
        if label == 'attest' and case['mut'] in SUBJ_MUTS:
            cause = 'attestation-subject-not-hashed'
        rec.finding('soundness', cause, c, 'mutated %s (%s) still verifies truthy with %s/%s; carrier=%s' % (
            case['mut'], field, algname, sigkit.HASHES[case['halg']], carrier))


def _norm(case):
    c = dict(case)
    if isinstance(c.get('doc'), (bytes, bytearray)):
        c['doc'] = bytes(c['doc']).hex()
    return c


def shard(arg):
    seed, idx, n, fast, bsec = arg
    rec = harness.Rec()
    budget = harness.Budget(bsec)

    def body(case):
        evaluate(_norm(case), rec)
    harness.run_given(case_strategy(fast), body, harness.derive_seed('C01', seed, idx), n, budget, rec)
    return rec


def matrix(arg):
    """covering matrix: every kind x every applicable mutation class x carrier x a few parameter variants, one key per family"""
    fam, part, nparts, variants = arg
    rec = harness.Rec()
    i = 0
    for label in sigkit.KINDS + ['pkbind-19']:
        for mut in sorted(set(APPLICABLE[LABEL_KIND[label]])):
            for carrier in ('detached', 'inside', 'copy'):
                for v in range(variants * (3 if mut == 'text-eol' else 1)):
                    i += 1
                    if i % nparts != part:
                        continue
                    case = {'kid': fam, 'halg': sigkit.HASH_IDS[i % 3], 'label': label, 'subkey': None, 'mut': mut,
                            'a': 7 * i + 3 + v, 'b': 13 * i + 1 + v * 5, 'doc': b'The quick brown fox\njumps over\r\nthe lazy dog\n'.hex(), 'carrier': carrier}
                    evaluate(case, rec)
    if part == 0:
        # a signature over the EMPTY document, presented with some other document wrapped in a message object
        for label in ('doc', 'text'):
            for a in range(3):
                for b in range(2):
                    evaluate({'kid': fam, 'halg': 8, 'label': label, 'subkey': None, 'mut': 'doc-as-message', 'a': a, 'b': b, 'doc': '', 'carrier': 'detached'}, rec)
    return rec


def confirm(arg):
    """third-party confirmation (0x50): a signature over another signature packet (RFC 4880 5.2.4).  The independent signer confirms
    signature A; PGPy must accept that over A only -- not over signature B, a document, a key or a user id -- and a 0x50 signature whose
    hash covers nothing (no subject octets at all) says nothing about any subject."""
    import pgpy
    from pgpy.constants import SignatureType
    fam, halg = arg
    rec = harness.Rec()
    sec = keypool.ref_secret(fam)
    other = keypool.ref_secret('ed25519-1')

    def docsig(doc, t):
        return rsig.sign(other, 0x00, 8, ('doc', doc), keypool.std_hashed(t, other.pub.fingerprint), keypool.sp(16, other.pub.keyid))
    A, B = docsig(b'contract A', 1600000000), docsig(b'contract B', 1600000001)
    hashed = keypool.std_hashed(1600000100, sec.pub.fingerprint)
    unh = keypool.sp(16, sec.pub.keyid)
    s_real = rsig.sign(sec, 0x50, halg, ('sig', A), hashed, unh)
    # the same with nothing hashed in front of the trailer: computed as over a zero-length document
    s_nothing = rsig.build_sig_body(0x50, *_sign_raw(sec, halg, hashed, unh))
    pub = keypool.pgpy_key(keypool.ref_cert(fam, secret=False))
    oa, ob = (pgpy.PGPSignature.from_blob(wire.build_packet(2, x)) for x in (A, B))
    subjects = [('signature-A', oa), ('signature-B', ob), ('document', b'contract A'), ('text', 'contract A'), ('key', pub), ('user-id', pub.userids[0])]
    for name, body, good in (('confirmation-of-A', s_real, {'signature-A'}), ('confirmation-of-nothing', s_nothing, set())):
        so = pgpy.PGPSignature.from_blob(wire.build_packet(2, body))
        for sname, subj in subjects:
            case = {'kind': 'confirm', 'fam': fam, 'halg': halg, 'sig': name, 'subject': sname}
            rec.case(('confirm', fam, halg, name, sname), True, ['type/0x50', 'confirm/' + name, 'subject/' + sname], {'signer': fam, 'hash': halg, 'signature': name, 'presented_with': sname})
            try:
                ok = bool(pub.verify(subj, so))
            except Exception:   # noqa
                ok = False
            if ok and sname not in good:
                rec.finding('subject', 'confirmation-verifies-over-another-subject/%s' % name, case, 'presented with: ' + sname)
            if not ok and sname in good:
                rec.finding('control', 'valid-confirmation-does-not-verify', case, '')
    return rec


def transcoded(arg):
    """a cleartext-signed file and the same file transcoded to another character set are different documents, octet for octet: the signature
    made over one must not verify over the other (and does verify over its own) -- both ways between UTF-8 and Latin-1"""
    import pgpy
    fam, halg = arg
    rec = harness.Rec()
    sec = keypool.ref_secret(fam)
    pub = keypool.pgpy_key(keypool.ref_cert(fam, secret=False))
    text = 'caf\u00e9 au lait\nGr\u00fc\u00dfe aus K\u00f6ln\n- dash line\nlast'
    for signed_as, other in (('utf-8', 'latin-1'), ('latin-1', 'utf-8')):
        octets = text.encode(signed_as)
        body = rsig.sign(sec, 0x01, halg, ('text', octets), keypool.std_hashed(1600000000, sec.pub.fingerprint), keypool.sp(16, sec.pub.keyid))
        armored = armor.write_cleartext(text, wire.build_packet(2, body), [sigkit.HASHES[halg]])
        for presented, must in ((signed_as, True), (other, False)):
            case = {'kind': 'transcoded', 'fam': fam, 'halg': halg, 'signed_as': signed_as, 'presented_as': presented}
            rec.case(('transcoded', fam, halg, signed_as, presented), True, ['carrier/cleartext-file', 'signed-as/' + signed_as, 'presented-as/' + presented],
                     {'signer': fam, 'hash': halg, 'text_signed_as': signed_as, 'file_presented_as': presented})
            try:
                ok = bool(pub.verify(pgpy.PGPMessage.from_blob(armored.encode(presented))))
            except Exception:   # noqa
                ok = False
            if ok and not must:
                rec.finding('subject', 'cleartext-file-in-another-character-set-verifies/%s-as-%s' % (signed_as, presented), case, '')
            if must and not ok:
                rec.finding('control', 'cleartext-file-does-not-verify-as-signed/' + signed_as, case, '')
    return rec


def _sign_raw(sec, halg, hashed, unh):
    """-> (pkalg, halg, hashed, unhashed, left16, mpis) of a type-0x50 signature whose hash input is the trailer alone"""
    pre = bytes([4, 0x50, sec.pub.alg, halg]) + len(hashed).to_bytes(2, 'big') + hashed
    dg = rsig.digest(halg, pre + b'\x04\xff' + len(pre).to_bytes(4, 'big'))
    return sec.pub.alg, halg, hashed, unh, dg[:2], rsig.sign_digest(sec, halg, dg)


def run(tier, seed):
    fams = ['ed25519-0', 'ecdsa-p256-0', 'dsa1024-0', 'rsa1024-0', 'ecdsa-p521-0', 'ecdsa-k256-0', 'ed25519-publead0', 'ecdsa-p384-0',
            'rsa2048-2', 'dsa2048-1']
    tasks = []
    for f in (fams if tier == 'thorough' else fams[:6]):
        for part in range(2):
            tasks.append(('matrix', (f, part, 2, 2 if tier == 'quick' else 6)))
    for j, f in enumerate(fams if tier == 'thorough' else fams[:6]):
        tasks.append(('confirm', (f, sigkit.HASH_IDS[(j + seed) % 4])))
        tasks.append(('transcoded', (f, sigkit.HASH_IDS[(j + seed + 1) % 4])))
    n = 260 if tier == 'quick' else 6000
    budget = 70 if tier == 'quick' else 900
    for i in range(16 if tier == 'quick' else 32):
        tasks.append(('shard', (seed, i, n, tier == 'quick' and i % 4 != 0, budget)))
    return harness.pmap('vpgpy.props.c01', 'dispatch', tasks)


def dispatch(task):
    return globals()[task[0]](task[1])


def replay(case):
    if case.get('kind') == 'transcoded':
        r = transcoded((case['fam'], case['halg']))
        return [(f['clause'], f['cause'], f['detail']) for f in r.findings]
    if case.get('kind') == 'confirm':
        r = confirm((case['fam'], case['halg']))
        return [(f['clause'], f['cause'], f['detail']) for f in r.findings]
    rec = harness.Rec()
    evaluate(_norm(case), rec)
    return [(f['clause'], f['cause'], f['detail']) for f in rec.findings]
