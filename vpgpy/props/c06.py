"""C06 -- secret keys at rest: passphrase protection is correct, checked, and wiped after use.

(1) histories of protect / unlock(right|wrong) / act inside the scope / exception inside the scope / nested unlock /
    re-protect / export+import / copy on keys of every algorithm with subkeys: after each step the export contains no
    secret integer in the clear, the reference recovers exactly the original integers from the export with the
    passphrase, the lock state follows a three-state model, and a locked key refuses private operations and holds
    no secret integer anywhere in its object graph;
(2) foreign protected keys built by the reference (simple / salted / iterated S2K, usage 254 and 255, every cipher,
    per-component passphrases, GNU-dummy stubs) must unlock with the right passphrase to a key that signs / decrypts
    verifiably, and refuse the wrong one."""
import warnings
import copy
import gc

from hypothesis import strategies as st

from .. import harness, keypool
from ..refpgp import wire, keys as rkeys, sig as rsig, grammar, enc as renc, s2k as rs2k, sym as rsym, armor

RULE = ('histories: Hypothesis draws (primary of RSA/DSA/ECDSA/EdDSA + ECDH or RSA subkey, list of 2-7 operations out of protect(cipher x hash x passphrase incl. UTF-8, 300 '
        'characters), unlock-and-sign, unlock-and-decrypt, unlock-and-raise, wrong-passphrase unlock, nested unlock, export/import binary+armored, copy); foreign matrix: every '
        'secret-key algorithm x usage 254/255 x specifier simple/salted/iterated x 9 ciphers x 4 hashes (covering) plus mixed per-component passphrases and GNU-dummy stubs. '
        'Non-trivial: a history with protect and an unlock-scope exit, or a foreign form other than iterated/254; distinct by (algorithm, cipher, hash, specifier, usage, history shape).')
RULE += ' Wrong passphrases that pass the two-octet checksum of usage 255 / the legacy form are searched for (reference, simple S2K) and must be refused.'
RULE += ' Histories also hold protect() calls that are refused (IDEA, Twofish), after which the key must be what it was.'
RULE += ' The foreign matrix also holds passphrases longer than the decoded S2K count (coded count 0) and RSA-2048/3072 keys whose usage-255 checksum wraps around 65536. Mixed forms: protected primary with unprotected subkey, primary in the clear with protected subkey, GnuPG stub primary with protected subkey, protect() while a subkey is still locked; the legacy protection form (usage octet = cipher id).'
RULE += ' Mixed forms also ask key.decrypt() and key.sign() to work through a stub primary once the subkeys are open.'
ASSUMPTIONS = ['the secret integers are known independently (key pool generated with cryptography)', 'object-graph walk is bounded (depth 10, 50000 objects); ciphertext blobs are exempt',
               'refpgp.keys/s2k/sym implement RFC 4880 5.5.3 independently']

PRIMARIES = ['ed25519-0', 'ecdsa-p256-0', 'rsa1024-0', 'dsa1024-0', 'ecdsa-p521-0', 'ed25519-seedlead00']
SUBS = ['cv25519-0', 'ecdh-p256-0', 'rsa1024-1', 'cv25519-seclead0', 'ecdh-p521-0']
CIPHERS = [9, 7, 8, 2, 3, 4, 11, 12, 13]
HASHES = [8, 2, 10, 1, 11, 9]
PWS = ['hunter2', 'pässwörd ü ☃', 'p' * 300, ' spaces ', 'x']


def secret_ints_of(kids):
    out = {}
    for k in kids:
        for name, v in keypool.secret_ints(k).items():
            if v.bit_length() >= 64:
                out[v] = '%s.%s' % (k, name)
    return out


def leak_in_bytes(blob, kids):
    hits = []
    for v, name in secret_ints_of(kids).items():
        b = v.to_bytes((v.bit_length() + 7) // 8, 'big')
        if b in blob:
            hits.append(name)
    return hits


def walk_for_secrets(root, kids, max_objs=50000, max_depth=10):
    """ints (incl. MPI) and byte strings reachable from root that equal a secret integer"""
    secrets = secret_ints_of(kids)
    sb = {v.to_bytes((v.bit_length() + 7) // 8, 'big'): n for v, n in secrets.items()}
    seen = set()
    hits = []
    stack = [(root, 0)]
    n = 0
    import types
    while stack and n < max_objs:
        o, d = stack.pop()
        if id(o) in seen:
            continue
        seen.add(id(o))
        n += 1
        if isinstance(o, int) and not isinstance(o, bool):
            if int(o) in secrets:
                hits.append(secrets[int(o)])
            continue
        if isinstance(o, (bytes, bytearray)):
            if 8 <= len(o) <= 600:
                for b, nm in sb.items():
                    if bytes(o) == b:
                        hits.append(nm + '(octets)')
            continue
        if isinstance(o, (str, type, types.ModuleType, types.FunctionType, types.BuiltinFunctionType, types.MethodType)) or d >= max_depth:
            continue
        try:
            for r in gc.get_referents(o):
                stack.append((r, d + 1))
        except Exception:   # noqa
            pass
    return hits


def ref_recovers(blob, passphrase, kids):
    """-> list of problems: the reference decrypts every secret packet of the export and compares the integers"""
    probs = []
    want = {keypool.ref_public(k).fingerprint: keypool.numbers(k)[3] for k in kids}
    try:
        pkts = wire.split_packets(blob)
    except wire.WireError as e:
        return ['the export is not a packet sequence: %s' % e]
    for p in pkts:
        if p.tag not in (5, 7):
            continue
        try:
            sk = rkeys.parse_secret_body(p.body)
        except wire.WireError as e:
            probs.append('secret packet unreadable: %s' % e)
            continue
        w = want.get(sk.pub.fingerprint)
        if w is None:
            continue
        if sk.usage == 0:
            probs.append('component %s is exported unprotected' % sk.pub.keyid.hex())
            continue
        try:
            got = rkeys.unlock(sk, passphrase)
        except wire.WireError as e:
            probs.append('reference cannot unlock %s with the passphrase: %s (usage %d cipher %d s2k %s hash %d)' % (sk.pub.keyid.hex(), e, sk.usage, sk.sym, sk.s2k.kind, sk.s2k.hash))
            continue
        if got != w:
            probs.append('recovered integers differ from the original for %s' % sk.pub.keyid.hex())
    return probs


def private_ops_refused(key):
    import pgpy
    res = []
    for name, fn in (('sign', lambda: key.sign(b'x')), ('certify', lambda: key.certify(key.userids[0])),
                     ('decrypt', lambda: key.decrypt(pgpy.PGPMessage.from_blob(_enc_to(key))))):
        try:
            fn()
            res.append(name)
        except Exception:   # noqa
            pass
    return res


_ENC = {}


def _enc_to(key):
    """a message the reference encrypted to the first encryption-capable component of key"""
    for comp in [key] + list(key.subkeys.values()):
        fp = str(comp.fingerprint)
        if fp in _ENC:
            return _ENC[fp]
    for p in wire.split_packets(bytes(key.pubkey)):
        if p.tag in (6, 14):
            pk = rkeys.parse_public_body(p.body)[0]
            if pk.alg in (1, 18):
                session = bytes(range(16))
                lit = wire.build_packet(11, grammar.build_literal(0x62, b'', 0, b'decrypt me'))
                blob = wire.build_packet(1, renc.pkesk_build(pk, 7, session)) + wire.build_packet(18, renc.seipd_build(7, session, lit))
                _ENC[pk.fingerprint.hex().upper()] = blob
                return blob
    return wire.build_packet(1, b'\x03' + bytes(8) + b'\x01' + wire.mpi_encode(5)) + wire.build_packet(18, b'\x01' + bytes(40))


def works_unlocked(key, pub):
    """signs verifiably and decrypts; -> problems"""
    import pgpy
    probs = []
    try:
        sig = key.sign(b'inside scope')
        s = rsig.parse_sig_body(wire.split_packets(bytes(sig))[0].body)
        pks = [rkeys.parse_public_body(p.body)[0] for p in wire.split_packets(bytes(pub)) if p.tag in (6, 14)]
        pk = [x for x in pks if x.keyid == rsig.issuer_keyid(s)]
        if not pk or not rsig.verify(s, ('doc', b'inside scope'), pk[0])[0]:
            probs.append('signature made inside the unlock scope does not verify under the reference')
    except Exception as e:   # noqa
        if 'usage flag' not in str(e):
            probs.append('sign inside scope: %r' % (e,))
    try:
        out = key.decrypt(pgpy.PGPMessage.from_blob(_enc_to(key)))
        if bytes(out.message) != b'decrypt me':
            probs.append('decrypt inside scope returned %r' % (bytes(out.message)[:20],))
    except Exception as e:   # noqa
        probs.append('decrypt inside scope: %r' % (e,))
    return probs


class Boom(Exception):
    pass


def run_history(c):
    """-> (findings, shape)"""
    import pgpy
    from pgpy.constants import SymmetricKeyAlgorithm, HashAlgorithm
    kids = [c['primary'], c['sub']]
    key = keypool.pgpy_key(keypool.ref_cert(c['primary'], subkeys=((c['sub'], 0x0C),), secret=True))
    pub = bytes(key.pubkey)
    # positive controls of the two detectors: an unprotected key does hold its secrets, in memory and in its export
    if len(set(walk_for_secrets(key, kids))) < 2 or len(leak_in_bytes(bytes(key), kids)) < 2:
        raise harness.HarnessError('secret detectors are blind: %r %r' % (walk_for_secrets(key, kids), leak_in_bytes(bytes(key), kids)))
    pw = None
    f = []
    shape = []

    def locked_checks(where):
        if pw is None:
            return
        if key.is_unlocked or not key.is_protected:
            f.append(('lock-state', 'not-locked-after/' + where.split(':')[1], '%s: is_protected=%r is_unlocked=%r' % (where, key.is_protected, key.is_unlocked)))
        done = private_ops_refused(key)
        if done:
            f.append(('lock-state', 'locked-key-performs/' + '+'.join(done), where))
        hits = walk_for_secrets(key, kids)
        if hits:
            f.append(('wipe', 'secret-integer-in-memory-after/' + where.split(':')[1], '%s: %r' % (where, sorted(set(hits))[:4])))
        blob = bytes(key)
        text = str(key)
        leak = leak_in_bytes(blob, kids) + leak_in_bytes(armor.read_blocks(text)[0].data, kids)
        if leak:
            f.append(('export', 'secret-integer-in-clear', '%s: %r' % (where, sorted(set(leak)))))
        for p in ref_recovers(blob, pw, kids):
            f.append(('export', 'reference-cannot-recover', '%s: %s' % (where, p)))

    for n, op in enumerate(c['ops']):
        where = '%d:%s' % (n, op[0])
        shape.append(op[0])
        try:
            if op[0] == 'protect':
                newpw = PWS[op[3] % len(PWS)]
                args = (newpw, SymmetricKeyAlgorithm(CIPHERS[op[1] % len(CIPHERS)]), HashAlgorithm(HASHES[op[2] % len(HASHES)]))
                if pw is None:
                    key.protect(*args)
                else:
                    with key.unlock(pw):
                        key.protect(*args)
                pw = newpw
            elif op[0] == 'protect_refused':
                # protect() with a cipher the library refuses to encrypt with (IDEA, Twofish): an exception inside the unlock scope like any
                # other -- the key is afterwards what it was before, readable with the passphrase it had
                bad = (newpw, cipher, halg) = (PWS[op[1] % len(PWS)] + '!', SymmetricKeyAlgorithm([1, 10][op[1] % 2]), HashAlgorithm(HASHES[op[1] % len(HASHES)]))
                try:
                    if pw is None:
                        key.protect(*bad)
                    else:
                        with key.unlock(pw):
                            key.protect(*bad)
                    pw = newpw        # not refused after all: an ordinary protect()
                except Exception:   # noqa
                    if pw is None:
                        if key.is_protected:
                            f.append(('protect', 'refused-protect-changes-the-key/unprotected', '%s: is_protected after the refusal' % where))
                        else:
                            for p in works_unlocked(key, pub):
                                f.append(('protect', 'refused-protect-changes-the-key/unprotected', '%s: %s' % (where, p)))
                    else:
                        try:
                            with key.unlock(pw):
                                for p in works_unlocked(key, pub):
                                    f.append(('protect', 'refused-protect-changes-the-key/protected', '%s: %s' % (where, p)))
                        except Exception as e:   # noqa
                            f.append(('protect', 'refused-protect-changes-the-key/protected', '%s: the passphrase it had no longer unlocks: %r' % (where, e)))
            elif op[0] in ('unlock_sign', 'unlock_raise', 'nested'):
                if pw is None:
                    continue
                try:
                    with key.unlock(pw):
                        if not key.is_unlocked:
                            f.append(('lock-state', 'not-unlocked-inside-scope', where))
                        for p in works_unlocked(key, pub):
                            f.append(('unlock', 'does-not-work-inside-scope', '%s: %s' % (where, p)))
                        if op[0] == 'nested':
                            with key.unlock(pw):
                                pass
                            # the outer scope has not ended: the key still signs and decrypts
                            if not key.is_unlocked:
                                f.append(('unlock', 'outer-scope-locked-by-inner-scope', '%s: is_unlocked False after the inner scope ended' % where))
                            for p in works_unlocked(key, pub):
                                f.append(('unlock', 'outer-scope-locked-by-inner-scope', '%s: %s' % (where, p)))
                        if op[0] == 'unlock_raise':
                            raise Boom()
                except Boom:
                    pass
            elif op[0] == 'unlock_wrong':
                if pw is None:
                    continue
                wrong = [pw + 'x', pw[:-1], pw.upper() if pw.upper() != pw else pw + ' ', ''][op[1] % 4]
                try:
                    with key.unlock(wrong):
                        f.append(('unlock', 'wrong-passphrase-accepted', '%s: %r' % (where, wrong)))
                except Exception:   # noqa
                    pass
            elif op[0] == 'copy_inside':
                # a copy taken while the key is unlocked is a key of its own: once the scope has ended it must not be a way around the passphrase
                if pw is None:
                    continue
                try:
                    with key.unlock(pw):
                        dup = copy.copy(key)
                        if op[1] % 2:
                            raise Boom()
                except Boom:
                    pass
                key = dup
            elif op[0] == 'export_import':
                key = pgpy.PGPKey.from_blob(str(key) if op[1] % 2 else bytes(key))[0]
            elif op[0] == 'copy':
                key = copy.copy(key)
        except Exception as e:   # noqa
            f.append(('step', 'exception/%s/%s' % (op[0], harness.exc_key(e)), '%s: %r' % (where, e)))
            break
        locked_checks(where)
        if f:
            break
    return f, shape


def op_strategy():
    i = st.integers(0, 11)
    return st.one_of(st.tuples(st.just('protect'), i, i, i), st.tuples(st.just('protect'), i, i, i), st.tuples(st.just('unlock_sign')), st.tuples(st.just('unlock_raise')), st.tuples(st.just('protect_refused'), i),
                     st.tuples(st.just('unlock_wrong'), i), st.tuples(st.just('nested')), st.tuples(st.just('export_import'), i), st.tuples(st.just('copy')), st.tuples(st.just('copy_inside'), i)).map(list)


def case_strategy():
    return st.fixed_dictionaries({'primary': st.sampled_from(PRIMARIES), 'sub': st.sampled_from(SUBS), 'ops': st.lists(op_strategy(), min_size=2, max_size=7)})


def w_hist(arg):
    seed, idx, n, bsec = arg
    rec = harness.Rec()

    def body(c):
        c = dict(c, ops=[['protect', c['ops'][0][1] if len(c['ops'][0]) > 1 else 0, idx, 0]] + c['ops'])
        f, shape = run_history(c)
        nt = 'protect' in shape and any(s.startswith('unlock') or s == 'nested' for s in shape)
        cfg = [o[1:3] for o in c['ops'] if o[0] == 'protect'][:1]
        rec.case(('hist', c['primary'], c['sub'], tuple(shape), str(cfg)), nt, ['alg/' + c['primary'].split('-')[0], 'sub/' + c['sub'].split('-')[0]] + ['op/' + s for s in set(shape)],
                 {'primary': c['primary'], 'subkey': c['sub'], 'operations': c['ops']})
        for clause, cause, det in f:
            rec.finding(clause, cause, c, det)
    harness.run_given(case_strategy(), body, harness.derive_seed('C06', seed, idx), n, harness.Budget(bsec), rec)
    return rec


def w_matrix(arg):
    """every protection cipher x hash through PGPy's own protect(), reference recovers"""
    part, nparts = arg
    rec = harness.Rec()
    i = 0
    for ci in range(len(CIPHERS)):
        for hi in range(len(HASHES)):
            i += 1
            if i % nparts != part:
                continue
            c = {'primary': PRIMARIES[i % len(PRIMARIES)], 'sub': SUBS[i % len(SUBS)], 'ops': [['protect', ci, hi, i % len(PWS)], ['unlock_sign']] + ([['protect_refused', i]] if i % 3 == 0 else []) + ([['copy_inside', i], ['unlock_sign']] if i % 4 == 1 else []) + [['export_import', i]]}
            f, shape = run_history(c)
            rec.case(('own', CIPHERS[ci], HASHES[hi], c['primary']), True, ['own/cipher%d' % CIPHERS[ci], 'own/hash%d' % HASHES[hi]], {'cipher': CIPHERS[ci], 'hash': HASHES[hi], 'key': c['primary']})
            for clause, cause, det in f:
                rec.finding(clause, 'protect-cipher%d-hash%d/' % (CIPHERS[ci], HASHES[hi]) + cause if clause == 'export' else cause, c, det)
    return rec


def foreign_case(rec, kid, sub, usage, kind, cipher, halg, mixed=False, longpw=False):
    import pgpy
    spec = rs2k.Spec(kind, halg, b'' if kind == 'simple' else b'\x11\x22\x33\x44\x55\x66\x77\x88', (0 if longpw else 3) if kind == 'iterated' else None)
    pw, pw2 = 'foreign pässphrase', 'another one'
    if longpw:
        # longer than the decoded octet count (1024): the whole salt+passphrase is hashed once all the same
        pw = 'key file used as passphrase ' * 60

    def body(k, passphrase):
        return keypool.secret_body(k, protect={'usage': usage, 'sym': cipher, 'spec': spec, 'iv': bytes((i * 7 + 1) & 0xFF for i in range(rsym.BLOCK[cipher])), 'passphrase': passphrase})
    pubblob = keypool.ref_cert(kid, subkeys=((sub, 0x0C),), secret=False)
    pk = wire.split_packets(pubblob)
    blob = wire.build_packet(5, body(kid, pw)) + pk[1].raw + pk[2].raw + wire.build_packet(7, body(sub, pw2 if mixed else pw)) + pk[4].raw
    case = {'kind': 'foreign', 'kid': kid, 'sub': sub, 'usage': usage, 'spec': kind, 'cipher': cipher, 'hash': halg, 'mixed': mixed, 'longpw': longpw}
    tag = '%s/usage%s' % (kind, usage) + ('/mixed-passphrases' if mixed else '') + ('/passphrase-longer-than-count' if longpw else '')
    rec.case(('foreign', kid, sub, usage, kind, cipher, halg, mixed), not (kind == 'iterated' and usage == 254 and not mixed),
             ['foreign/' + tag, 'foreign/cipher%d' % cipher, 'alg/' + kid.split('-')[0]], {'key': kid, 'subkey': sub, 'usage': usage, 's2k': kind, 'cipher': cipher, 'hash': halg, 'mixed': mixed})
    try:
        key = pgpy.PGPKey.from_blob(blob)[0]
    except Exception as e:   # noqa
        rec.finding('foreign', 'load-exception/' + tag, case, repr(e))
        return
    kids = [kid, sub]
    if not key.is_protected or key.is_unlocked:
        rec.finding('foreign', 'lock-state-after-load/' + tag, case, 'is_protected=%r is_unlocked=%r' % (key.is_protected, key.is_unlocked))
    if private_ops_refused(key):
        rec.finding('foreign', 'locked-key-performs/' + tag, case, '')
    try:
        with key.unlock(pw + '!'):
            rec.finding('foreign', 'wrong-passphrase-accepted/' + tag, case, '')
    except Exception:   # noqa
        pass
    if key.is_unlocked or walk_for_secrets(key, kids):
        rec.finding('foreign', 'not-locked-after-wrong-passphrase/' + tag, case, '')
    try:
        with key.unlock(pw):
            if mixed:
                rec.finding('foreign', 'unlock-succeeds-although-a-component-has-another-passphrase', case, '')
            for p in works_unlocked(key, pubblob):
                rec.finding('foreign', 'does-not-work-unlocked/' + tag, case, p)
    except Exception as e:   # noqa
        if not mixed:
            rec.finding('foreign', 'right-passphrase-rejected/' + tag, case, repr(e))
    if key.is_unlocked:
        rec.finding('foreign', 'still-unlocked-after-scope/' + tag, case, '')
    hits = walk_for_secrets(key, kids)
    if hits:
        rec.finding('foreign', 'secret-integer-in-memory-after-scope/' + tag, case, repr(sorted(set(hits))[:3]))
    if private_ops_refused(key):
        rec.finding('foreign', 'locked-key-performs-after-scope/' + tag, case, '')
    if bytes(key) != blob:
        rec.finding('foreign', 're-export-differs/' + tag, case, 'a protected key that was only unlocked must export unchanged')


def plain_sub_case(rec, kid, sub):
    """a protected primary key with an UNprotected subkey (usage octet 0; legal RFC 4880, e.g. a subkey added by a tool that does not protect):
    unlocking must work, the scope must end with the primary locked again, and the subkey that never was protected must not be damaged"""
    import pgpy
    spec = rs2k.Spec('iterated', 8, b'\x11\x22\x33\x44\x55\x66\x77\x88', 3)
    pw = 'foreign pässphrase'
    pubblob = keypool.ref_cert(kid, subkeys=((sub, 0x0C),), secret=False)
    pk = wire.split_packets(pubblob)
    prim = keypool.secret_body(kid, protect={'usage': 254, 'sym': 9, 'spec': spec, 'iv': bytes(range(16)), 'passphrase': pw})
    blob = wire.build_packet(5, prim) + pk[1].raw + pk[2].raw + wire.build_packet(7, keypool.secret_body(sub)) + pk[4].raw
    case = {'kind': 'plain-sub', 'kid': kid, 'sub': sub}
    rec.case(('plain-sub', kid, sub), True, ['foreign/protected-primary-with-unprotected-subkey', 'alg/' + kid.split('-')[0]], {'key': kid, 'subkey': sub, 'form': 'protected primary, unprotected subkey'})
    try:
        key = pgpy.PGPKey.from_blob(blob)[0]
    except Exception as e:   # noqa
        rec.finding('foreign', 'load-exception/plain-sub', case, repr(e))
        return
    try:
        with key.unlock(pw):
            for p in works_unlocked(key, pubblob):
                rec.finding('foreign', 'does-not-work-unlocked/plain-sub', case, p)
    except Exception as e:   # noqa
        rec.finding('foreign', 'right-passphrase-rejected/plain-sub', case, repr(e))
    if walk_for_secrets(key, [kid]):
        rec.finding('foreign', 'secret-integer-in-memory-after-scope/plain-sub', case, '')
    try:
        if bytes(key) != blob:
            rec.finding('foreign', 're-export-differs/plain-sub', case, 'the key was only unlocked: it must export unchanged (the unprotected subkey included)')
    except Exception as e:   # noqa
        rec.finding('foreign', 'export-exception/plain-sub', case, repr(e))
    try:
        with key.unlock(pw + '?'):
            rec.finding('foreign', 'wrong-passphrase-accepted/plain-sub', case, '')
    except Exception:   # noqa
        pass


def mixed_case(rec, kid, sub, shape):
    """keys whose components are protected differently (legal RFC 4880; GnuPG >= 2.1 protects each key on its own):
    'plain-primary'  primary in the clear, subkey protected           -> unlock(pw) must open the subkey
    'dummy-primary'  GnuPG --export-secret-subkeys: primary is a stub -> unlock(pw) must open the subkey
    'reprotect'      primary in the clear, subkey protected and locked; protect(new) must not destroy the locked subkey's secret"""
    import pgpy
    from pgpy.constants import SymmetricKeyAlgorithm, HashAlgorithm
    spec = rs2k.Spec('iterated', 8, b'\x11\x22\x33\x44\x55\x66\x77\x88', 3)
    pw = 'subkey passphrase'
    pubblob = keypool.ref_cert(kid, subkeys=((sub, 0x0C),), secret=False)
    pk = wire.split_packets(pubblob)
    subbody = keypool.secret_body(sub, protect={'usage': 254, 'sym': 9, 'spec': spec, 'iv': bytes(range(16)), 'passphrase': pw})
    if shape == 'dummy-primary':
        a, c_, params, secret, curve, kdf = keypool.numbers(kid)
        prim = rkeys.build_gnu_dummy_body(a, c_, params, curve, kdf)
    else:
        prim = keypool.secret_body(kid)
    blob = wire.build_packet(5, prim) + pk[1].raw + pk[2].raw + wire.build_packet(7, subbody) + pk[4].raw
    case = {'kind': 'mixed', 'kid': kid, 'sub': sub, 'shape': shape}
    rec.case(('mixed', kid, sub, shape), True, ['foreign/mixed-protection/' + shape, 'alg/' + kid.split('-')[0]], {'key': kid, 'subkey': sub, 'form': shape})
    try:
        key = pgpy.PGPKey.from_blob(blob)[0]
    except Exception as e:   # noqa
        rec.finding('foreign', 'load-exception/' + shape, case, repr(e))
        return
    subkey = list(key.subkeys.values())[0]
    if shape == 'reprotect':
        try:
            with warnings.catch_warnings():
                warnings.simplefilter('ignore')
                key.protect('new passphrase', SymmetricKeyAlgorithm.AES128, HashAlgorithm.SHA256)
            out = bytes(key)
        except Exception:   # noqa
            rec.note('mixed/reprotect-refused')
            return
        # whatever protect() did: the subkey's secret integers must still be recoverable (old or new passphrase), never replaced
        want = keypool.secret_ints(sub)
        got = None
        for p in wire.split_packets(out):
            if p.tag == 7:
                sk = rkeys.parse_secret_body(p.body)
                for cand in (pw, 'new passphrase'):
                    try:
                        got = rkeys.unlock(sk, cand) if sk.usage else sk.secret
                        break
                    except Exception:   # noqa
                        continue
        if got is None or {k: int(v) for k, v in got.items()} != {k: int(v) for k, v in want.items()}:
            rec.finding('foreign', 'protect-destroys-locked-subkey', case, 'after protect() on a key whose subkey was locked, the exported subkey no longer yields its secret integers under any passphrase used')
        return
    try:
        with warnings.catch_warnings():
            warnings.simplefilter('ignore')
            with key.unlock(pw):
                if not subkey.is_unlocked:
                    rec.finding('foreign', 'unlock-leaves-protected-subkey-locked/' + shape, case, '')
                else:
                    try:
                        session = bytes(range(16))
                        lit = wire.build_packet(11, grammar.build_literal(0x62, b'', 0, b'decrypt me'))
                        eblob = wire.build_packet(1, renc.pkesk_build(keypool.ref_public(sub), 7, session)) + wire.build_packet(18, renc.seipd_build(7, session, lit))
                        out = subkey.decrypt(pgpy.PGPMessage.from_blob(eblob))
                        if bytes(out.message) != b'decrypt me':
                            rec.finding('foreign', 'does-not-work-unlocked/' + shape, case, 'decrypt returned something else')
                        # and through the key object itself, which has to find the addressed subkey whatever the state of the primary is
                        try:
                            out2 = key.decrypt(pgpy.PGPMessage.from_blob(eblob))
                            if bytes(out2.message) != b'decrypt me':
                                rec.finding('foreign', 'does-not-work-unlocked/' + shape, case, 'key.decrypt returned something else')
                        except Exception as e:   # noqa
                            rec.finding('foreign', 'key-decrypt-does-not-reach-the-subkey/' + shape, case, repr(e))
                    except Exception as e:   # noqa
                        rec.finding('foreign', 'does-not-work-unlocked/' + shape, case, repr(e))
    except Exception as e:   # noqa
        rec.finding('foreign', 'right-passphrase-rejected/' + shape, case, repr(e))
    if subkey.is_unlocked or walk_for_secrets(key, [sub]):
        rec.finding('foreign', 'not-locked-after-scope/' + shape, case, '')
    if bytes(key) != blob:
        rec.finding('foreign', 're-export-differs/' + shape, case, '')


def gnu_dummy_case(rec, kid, old_style=False):
    import pgpy
    a, c_, params, secret, curve, kdf = keypool.numbers(kid)
    pubblob = keypool.ref_cert(kid, secret=False)
    pk = wire.split_packets(pubblob)
    # old_style: the form GnuPG 1.4 / 2.0 write -- the cipher and hash octets keep the ids the key was protected with (FE 03 65 02 'GNU' 01)
    blob = wire.build_packet(5, rkeys.build_gnu_dummy_body(a, c_, params, curve, kdf, **({'halg': 2, 'sym': 3} if old_style else {}))) + pk[1].raw + pk[2].raw
    case = {'kind': 'gnu-dummy', 'kid': kid, 'old_style': old_style}
    rec.case(('gnu-dummy', kid, old_style), True, ['foreign/gnu-dummy' + ('/hash-and-cipher-octets-set' if old_style else '')], {'key': kid, 'form': 'GNU-dummy S2K (no secret material)', 'gnupg_1_4_style': old_style})
    try:
        key = pgpy.PGPKey.from_blob(blob)[0]
        if not key.is_protected:
            rec.finding('foreign', 'gnu-dummy/not-reported-protected', case, '')
        if private_ops_refused(key):
            rec.finding('foreign', 'gnu-dummy/performs-private-operation', case, '')
        if bytes(key) != blob:
            rec.finding('foreign', 'gnu-dummy/re-export-differs', case, '')
    except Exception as e:   # noqa
        rec.finding('foreign', 'gnu-dummy/load-exception', case, repr(e))


def collision_case(rec, kid, usage, seed):
    """the two-octet checksum of usage 255 and of the legacy form lets one wrong passphrase in 65536 through the checksum: such a
    passphrase is searched for with the reference (simple S2K, so a candidate costs one hash and one short decryption) and must be
    refused like any other wrong passphrase -- what it 'decrypts' is not the secret half of this key"""
    import pgpy
    spec = rs2k.Spec('simple', 1 if usage == 'legacy' else 2, b'', None)
    pw = 'the right one'
    body = keypool.secret_body(kid, protect={'usage': usage, 'sym': 7, 'spec': spec, 'iv': bytes((i * 5 + seed) & 0xFF for i in range(16)), 'passphrase': pw})
    pk = wire.split_packets(keypool.ref_cert(kid, secret=False))
    blob = wire.build_packet(5, body) + pk[1].raw + pk[2].raw
    sk = rkeys.parse_secret_body(body)
    found = []
    for n in range(400000):
        cand = 'wrong-%d-%d' % (seed, n)
        pt = rsym.cfb_decrypt(sk.sym, rs2k.derive(sk.s2k, cand, 16), sk.iv, sk.protected_blob)
        if (sum(pt[:-2]) & 0xFFFF) == int.from_bytes(pt[-2:], 'big'):
            found.append(cand)
            if len(found) == 2:
                break
    for cand in found:
        case = {'kind': 'collision', 'kid': kid, 'usage': usage, 'seed': seed, 'passphrase': cand}
        rec.case(('collision', kid, usage, cand), True, ['foreign/checksum-collision/usage%s' % usage, 'alg/' + kid.split('-')[0]],
                 {'key': kid, 'usage': usage, 'form': 'wrong passphrase that passes the 16-bit checksum', 'passphrase': cand})
        try:
            key = pgpy.PGPKey.from_blob(blob)[0]
            try:
                with key.unlock(cand):
                    rec.finding('foreign', 'wrong-passphrase-accepted/checksum-collision/usage%s' % usage, case, 'is_unlocked=%r' % key.is_unlocked)
            except Exception:   # noqa
                pass
            if key.is_unlocked or walk_for_secrets(key, [kid]):
                rec.finding('foreign', 'not-locked-after-wrong-passphrase/checksum-collision', case, '')
            with key.unlock(pw):
                if not key.pubkey.verify(b'after the collision', key.sign(b'after the collision')):
                    rec.finding('foreign', 'unlock-after-collision/does-not-work', case, 'signature made with the right passphrase does not verify')
        except Exception as e:   # noqa
            rec.finding('foreign', 'exception/checksum-collision/' + harness.exc_key(e), case, repr(e))
    if not found:
        rec.note('checksum-collision/none-found-in-400000')


def w_collision(arg):
    kid, usage, seed = arg
    rec = harness.Rec()
    collision_case(rec, kid, usage, seed)
    return rec


def w_foreign(arg):
    part, nparts = arg
    rec = harness.Rec()
    i = 0
    combos = []
    for kid in ['rsa1024-0', 'dsa1024-0', 'ecdsa-p256-0', 'ed25519-0', 'ecdsa-p521-0']:
        for usage in (254, 255):
            for kind in ('simple', 'salted', 'iterated'):
                combos.append((kid, usage, kind))
    for (kid, usage, kind) in combos:
        for ci, cipher in enumerate(CIPHERS):
            i += 1
            if i % nparts != part:
                continue
            foreign_case(rec, kid, SUBS[i % len(SUBS)], usage, kind, cipher, [2, 8, 10, 1][(i + ci) % 4])
    # secret fields long enough for the usage-255 additive checksum to wrap around 65536 (RSA-2048: d, p, q, u ~ 640 octets)
    big = [k for k in ('rsa2048-2', 'rsa3072-5', 'dsa2048-1') if k in keypool.pool()][:2]
    for kid in big:
        for usage in (255, 254):
            for kind in ('iterated', 'salted'):
                i += 1
                if i % nparts != part:
                    continue
                foreign_case(rec, kid, SUBS[i % len(SUBS)], usage, kind, CIPHERS[i % len(CIPHERS)], [2, 8, 10, 1][i % 4])
    # the legacy form of RFC 4880 5.5.3: the usage octet is itself the cipher id (key = MD5 of the passphrase)
    for j, kid in enumerate(['rsa1024-0', 'ed25519-0', 'dsa1024-0', 'ecdsa-p256-0']):
        i += 1
        if i % nparts == part:
            foreign_case(rec, kid, SUBS[j], 'legacy', 'simple', [7, 9, 3, 2][j], 1)
    for j, kid in enumerate(['ed25519-0', 'rsa1024-0', 'ecdsa-p256-0', 'dsa1024-0']):
        if j % nparts == part % 4:
            foreign_case(rec, kid, SUBS[j], 254, 'iterated', 9, 8, mixed=True)
            foreign_case(rec, kid, SUBS[j], [254, 255][j % 2], 'iterated', [9, 7, 3, 13][j], [8, 2, 10, 1][j], longpw=True)
            gnu_dummy_case(rec, kid)
            gnu_dummy_case(rec, kid, old_style=True)
            plain_sub_case(rec, kid, SUBS[j])
            for shape in ('plain-primary', 'dummy-primary', 'reprotect'):
                mixed_case(rec, kid, SUBS[j], shape)
    return rec


def run(tier, seed):
    tasks = [('w_foreign', (p, 4)) for p in range(4)] + [('w_matrix', (p, 6)) for p in range(6)]
    ck = ['ed25519-0', 'ecdsa-p256-0', 'rsa1024-0', 'dsa1024-0', 'ecdsa-p521-0']
    tasks += [('w_collision', (ck[(seed + j) % len(ck)], u, seed % 251)) for j, u in enumerate((255, 'legacy') if tier == 'quick' else (255, 'legacy', 255, 'legacy', 255))]
    n, bsec = (7, 90) if tier == 'quick' else (150, 1500)
    for i in range(6 if tier == 'quick' else 22):
        tasks.append(('w_hist', (seed, i, n, bsec)))
    return harness.pmap('vpgpy.props.c06', 'dispatch', tasks)


def dispatch(task):
    return globals()[task[0]](task[1])


def replay(case):
    rec = harness.Rec()
    if case.get('kind') == 'foreign':
        foreign_case(rec, case['kid'], case['sub'], case['usage'], case['spec'], case['cipher'], case['hash'], case.get('mixed', False), case.get('longpw', False))
    elif case.get('kind') == 'gnu-dummy':
        gnu_dummy_case(rec, case['kid'], case.get('old_style', False))
    elif case.get('kind') == 'mixed':
        mixed_case(rec, case['kid'], case['sub'], case['shape'])
    elif case.get('kind') == 'collision':
        collision_case(rec, case['kid'], case['usage'], case['seed'])
    elif case.get('kind') == 'plain-sub':
        plain_sub_case(rec, case['kid'], case['sub'])
    else:
        f, shape = run_history(case)
        return f
    return [(f['clause'], f['cause'], f['detail']) for f in rec.findings]
