"""C12 -- string-to-key derivation equals the RFC 4880 section 3.7 definition.

Differential against refpgp.s2k (a streaming implementation: contexts preloaded with 0,1,2.. zero octets,
salt||passphrase repeated to the decoded count, at least once, digests concatenated and truncated)."""
from hypothesis import strategies as st

from .. import harness
from ..refpgp import s2k as rs2k, sym as rsym

RULE = ('exhaustive: specifier {simple,salted,iterated} x 7 hashes x every cipher id with a key size (11 ids, 128/192/256 bits => 1 or 2 '
        'hash contexts) x counts {0..40, 96, 128, 200} x 6 passphrase shapes; all 256 coded counts x {SHA-1, SHA-256} x 3 passphrase '
        'lengths (all 7 hashes x 3 key sizes in thorough); Hypothesis: random (specifier, hash, cipher, salt, count <= 2^21 octets, '
        'passphrase 0..5000 octets, str/bytes). Each derived key is compared with the independent streaming implementation, directly and '
        'after the specifier was serialised and re-parsed. Non-trivial: more than one hash context, or count < len(salt+passphrase), or '
        'count not a multiple of it, or non-ASCII/bytes passphrase; distinct by the full parameter tuple.')
RULE += ' History worker: one String2Key object whose cipher, hash, salt, count, specifier are edited in place (or re-parsed) between derivations; every derivation is compared with the reference for the parameters then held.'
ASSUMPTIONS = ['hashlib digests are trusted (shared)', 'three- and four-context derivations cannot be produced through PGPy (its cipher table has no '
               'key above 256 bits and no digest below 128 bits), so contexts are limited to one or two',
               'passphrases are str (UTF-8 encoded by PGPy) or bytes, as documented']

HASHES = [1, 2, 3, 8, 9, 10, 11]
CIPHERS = [1, 2, 3, 4, 7, 8, 9, 10, 11, 12, 13]
SPECS = [('simple', 0), ('salted', 1), ('iterated', 3)]
DIGEST = {1: 16, 2: 20, 3: 20, 8: 32, 9: 48, 10: 64, 11: 28}


def pgpy_derive(specid, halg, cipher, salt, count, passphrase, reparse):
    from pgpy.packet.fields import String2Key
    s = String2Key()
    s.usage = 255
    s.encalg = cipher
    s.specifier = specid
    s.halg = halg
    if specid >= 1:
        s.salt = bytearray(salt)
    if specid == 3:
        s.count = count
    if reparse:
        raw = bytes(s.__bytearray__())
        s2 = String2Key()
        buf = bytearray(raw + b'\x5a')
        s2.parse(buf, iv=False)
        if bytes(buf) != b'\x5a' or bytes(s2.__bytearray__()) != raw:
            raise AssertionError('stored form does not round-trip: %s' % raw.hex())
        s = s2
    return bytes(s.derive_key(passphrase))


def one(rec, kind, specid, halg, cipher, salt, count, passphrase, ptype):
    """passphrase: bytes; ptype 'str' -> handed to PGPy as str (must be valid UTF-8), 'bytes' -> as bytes"""
    keylen = rsym.KEYLEN[cipher]
    nctx = -(-keylen // DIGEST[halg])
    unit = (len(salt) if specid else 0) + len(passphrase)
    dec = rs2k.decode_count(count) if specid == 3 else unit
    nontriv = nctx > 1 or (specid == 3 and (dec < unit or (unit and dec % unit))) or ptype == 'bytes' or any(b > 0x7f for b in passphrase)
    case = {'spec': kind, 'hash': halg, 'cipher': cipher, 'salt': salt.hex(), 'count': count, 'pass': passphrase.hex(), 'ptype': ptype}
    rec.case(('s2k', kind, halg, cipher, salt.hex(), count, passphrase.hex(), ptype), bool(nontriv),
             ('spec/' + kind, 'hash/%d' % halg, 'contexts/%d' % nctx, 'keybits/%d' % (keylen * 8),
              'count-vs-unit/%s' % ('lt' if dec < unit else 'multiple' if unit and dec % unit == 0 else 'partial-tail'), 'pass/' + ptype),
             {'spec': kind, 'hash': halg, 'cipher': cipher, 'coded_count': count, 'pass_len': len(passphrase), 'contexts': nctx})
    want = rs2k.derive(rs2k.Spec(kind, halg, salt if specid else b'', count if specid == 3 else None), passphrase, keylen)
    p = passphrase.decode('utf-8') if ptype == 'str' else passphrase
    for reparse in (False, True):
        try:
            got = pgpy_derive(specid, halg, cipher, salt, count, p, reparse)
        except Exception as e:   # noqa
            cause = 'empty-passphrase-simple-s2k' if (unit == 0) else 'exception/' + harness.exc_key(e)
            rec.finding('derive', cause, case, repr(e))
            return
        if got != want:
            cause = '%s/contexts%d' % (kind, nctx) + ('/short-count' if dec < unit else '')
            rec.finding('derive' if not reparse else 'derive-after-reparse', cause, case, 'got %s want %s' % (got.hex(), want.hex()))
            return


PASS_SHAPES = [(b'', 'str'), (b'a', 'str'), ('pässwörd ü'.encode(), 'str'), (b'\xff\xfe raw bytes \x00', 'bytes'), (b'x' * 1500, 'str'),
               ('long ' * 40 + 'ÿ', 'str'),
               # text that is not in Unicode normal form C (combining marks, singletons, conjoining jamo): must be hashed as its UTF-8 octets
               ('Cafe\u0301 Zu\u0308rich', 'str'), ('\u212b\u2126 \u1100\u1161\u11a8', 'str'), ('line\nbreak\r\n', 'str'), (' padded ', 'str')]


def w_matrix(arg):
    part, nparts = arg
    rec = harness.Rec()
    i = 0
    for kind, sid in SPECS:
        for h in HASHES:
            for c in CIPHERS:
                counts = (list(range(0, 41)) + [96, 128, 200]) if sid == 3 else [0]
                for cnt in counts:
                    i += 1
                    if i % nparts != part:
                        continue
                    pw, pt = PASS_SHAPES[(i // nparts) % len(PASS_SHAPES)]
                    if isinstance(pw, str):
                        pw = pw.encode()
                    one(rec, kind, sid, h, c, bytes([i & 0xFF, 1, 2, 3, 4, 5, 6, 0x80 | (i >> 8) & 0x7F]), cnt, pw, pt)
    rec.exhaustive['specifier x hash x cipher x low counts'] = True
    return rec


def w_boundary(arg):
    """passphrase lengths around every low decoded count: len(salt+passphrase) just below, at and above the count,
    and len(passphrase) alone just below it (the 'at least one full copy' rule)"""
    lo, hi = arg
    rec = harness.Rec()
    for cnt in range(lo, hi):
        dec = rs2k.decode_count(cnt)
        for delta in range(-18, 4):
            n = dec + delta
            if n < 0:
                continue
            pw = (b'0123456789abcdefghijklmnopqrstuvwxyzABCDEFGHIJKLMNOPQRSTUVWXYZ' * (n // 62 + 1))[:n]
            one(rec, 'iterated', 3, [2, 8, 1][cnt % 3], [9, 7, 2][delta % 3], b'\x10\x20\x30\x40\x50\x60\x70\x80', cnt, pw, 'str')
    return rec


def w_counts(arg):
    halg, cipher, lo, hi, pw = arg
    rec = harness.Rec()
    for cnt in range(lo, hi):
        one(rec, 'iterated', 3, halg, cipher, b'\x00\x11\x22\x33\x44\x55\x66\x77', cnt, pw, 'str')
    rec.exhaustive['all 256 coded counts'] = True
    return rec


def case_strategy():
    pw = st.one_of(
        st.binary(max_size=64).map(lambda b: (b.hex(), 'bytes')),
        st.one_of(st.text(max_size=40), st.text(alphabet='aeE\u0301\u0308\u212b\u1100\u1161 \n', max_size=12)).map(lambda t: (t.encode('utf-8', 'surrogatepass').hex(), 'str')).filter(lambda x: _utf8ok(x[0])),
        st.integers(0, 5000).map(lambda n: ((b'0123456789abcdef' * (n // 16 + 1))[:n].hex(), 'str')),
    )
    return st.fixed_dictionaries({
        'spec': st.sampled_from(SPECS), 'hash': st.sampled_from(HASHES), 'cipher': st.sampled_from(CIPHERS),
        'salt': st.binary(min_size=8, max_size=8).map(lambda b: b.hex()), 'count': st.integers(0, 180), 'pw': pw})


def _utf8ok(hx):
    try:
        bytes.fromhex(hx).decode('utf-8')
        return True
    except UnicodeDecodeError:
        return False


def w_random(arg):
    seed, idx, n, bsec = arg
    rec = harness.Rec()

    def body(c):
        one(rec, c['spec'][0], c['spec'][1], c['hash'], c['cipher'], bytes.fromhex(c['salt']), c['count'], bytes.fromhex(c['pw'][0]), c['pw'][1])
    harness.run_given(case_strategy(), body, harness.derive_seed('C12', seed, idx), n, harness.Budget(bsec), rec)
    return rec


def history_strategy():
    step = st.tuples(st.sampled_from(['cipher', 'cipher', 'hash', 'salt', 'count', 'spec', 'pass', 'reparse', 'same']), st.integers(0, 1000))
    return st.fixed_dictionaries({'kind': st.just('history'), 'steps': st.lists(step.map(list), min_size=2, max_size=8)})


def run_history(rec, c):
    """one String2Key object lives through a sequence of in-place edits (the way protect(), the SKESK builder and a re-parse reuse it);
    after every edit the derived key must be the RFC value for the parameters the object holds *now*"""
    from pgpy.packet.fields import String2Key
    cur = {'spec': 3, 'hash': 8, 'cipher': 7, 'salt': b'\x01\x02\x03\x04\x05\x06\x07\x08', 'count': 4, 'pw': b'history pw'}
    s = String2Key()
    s.usage = 255
    s.encalg, s.specifier, s.halg, s.salt, s.count = cur['cipher'], cur['spec'], cur['hash'], bytearray(cur['salt']), cur['count']
    names = []
    for n, (what, v) in enumerate(c['steps']):
        names.append(what)
        if what == 'cipher':
            cur['cipher'] = CIPHERS[v % len(CIPHERS)]
            s.encalg = cur['cipher']
        elif what == 'hash':
            cur['hash'] = HASHES[v % len(HASHES)]
            s.halg = cur['hash']
        elif what == 'salt':
            cur['salt'] = bytes((v + i) & 0xFF for i in range(8))
            s.salt = bytearray(cur['salt'])
        elif what == 'count':
            cur['count'] = v % 40
            s.count = cur['count']
        elif what == 'spec':
            cur['spec'] = [0, 1, 3][v % 3]
            s.specifier = cur['spec']
            if cur['spec'] >= 1:
                s.salt = bytearray(cur['salt'])
            if cur['spec'] == 3:
                s.count = cur['count']
        elif what == 'pass':
            cur['pw'] = [b'history pw', b'other', b'history pw2', 'pässwörd'.encode()][v % 4]
        elif what == 'reparse':
            # a stored specifier with other parameters is parsed into the same object
            cur['cipher'], cur['hash'] = CIPHERS[v % len(CIPHERS)], HASHES[(v // 7) % len(HASHES)]
            raw = bytes([255, cur['cipher'], cur['spec'], cur['hash']]) + (cur['salt'] if cur['spec'] >= 1 else b'') + (bytes([cur['count']]) if cur['spec'] == 3 else b'')
            s.parse(bytearray(raw), iv=False)
        kind = {0: 'simple', 1: 'salted', 3: 'iterated'}[cur['spec']]
        want = rs2k.derive(rs2k.Spec(kind, cur['hash'], cur['salt'] if cur['spec'] else b'', cur['count'] if cur['spec'] == 3 else None), cur['pw'], rsym.KEYLEN[cur['cipher']])
        try:
            got = bytes(s.derive_key(cur['pw'].decode('utf-8')))
        except Exception as e:   # noqa
            rec.finding('derive-history', 'exception/' + harness.exc_key(e), c, 'step %d %s: %r' % (n, what, e))
            break
        if got != want:
            rec.finding('derive-history', 'stale-after-' + what, c, 'step %d (%s): got %s want %s' % (n, what, got.hex(), want.hex()))
            break
    rec.case(('history',) + tuple(tuple(x) for x in c['steps']), len(set(names)) >= 2, ['history/len%d' % len(names)] + ['history/edit-' + x for x in set(names)],
             {'kind': 'history', 'edits': names})


def w_history(arg):
    seed, idx, n, bsec = arg
    rec = harness.Rec()
    harness.run_given(history_strategy(), lambda c: run_history(rec, c), harness.derive_seed('C12h', seed, idx), n, harness.Budget(bsec), rec)
    return rec


def run(tier, seed):
    tasks = [('w_matrix', (p, 8)) for p in range(8)]
    for i in range(4):
        tasks.append(('w_history', (seed, i, 150 if tier == 'quick' else 3000, 60 if tier == 'quick' else 600)))
    combos = [(2, 9), (8, 9)] if tier == 'quick' else [(h, c) for h in HASHES for c in (7, 8, 9)]
    pws = [b'pw', b'a much longer passphrase that exceeds sixty-four octets in length, for sure!!', b'']
    for h, c in combos:
        for pw in pws:
            for lo in range(0, 256, 32):
                tasks.append(('w_counts', (h, c, lo, lo + 32, pw)))
    for lo in range(0, 48 if tier == 'quick' else 96, 6):
        tasks.append(('w_boundary', (lo, lo + 6)))
    n, bsec = (250, 60) if tier == 'quick' else (4000, 900)
    for i in range(12):
        tasks.append(('w_random', (seed, i, n, bsec)))
    # big tasks first for better packing
    tasks.sort(key=lambda t: -(t[1][3] if t[0] == 'w_counts' else 0))
    return harness.pmap('vpgpy.props.c12', 'dispatch', tasks)


def dispatch(task):
    return globals()[task[0]](task[1])


def replay(case):
    rec = harness.Rec()
    if case.get('kind') == 'history':
        run_history(rec, case)
        return [(f['clause'], f['cause'], f['detail']) for f in rec.findings]
    sid = {'simple': 0, 'salted': 1, 'iterated': 3}[case['spec']]
    one(rec, case['spec'], sid, case['hash'], case['cipher'], bytes.fromhex(case['salt']), case['count'], bytes.fromhex(case['pass']), case['ptype'])
    return [(f['clause'], f['cause'], f['detail']) for f in rec.findings]
