"""C11 -- the cleartext signature framework preserves the text and the signature.

(1) round trip through str()/from_blob(); (2) the reference 7.1 canonicaliser + verifier accept PGPy's output;
(3) PGPy verifies and returns the text of messages cleartext-signed by the reference."""
from hypothesis import strategies as st

from .. import harness, keypool, sigkit
from ..refpgp import wire, keys as rkeys, sig as rsig, armor

RULE = ('Hypothesis draws texts from an adversarial line alphabet (lines starting with "-", "- ", "From ", armor-looking lines, empty lines, '
        'trailing spaces/tabs, LF/CRLF/lone CR, with/without final newline, Latin-1/BMP/astral characters, 5000-character lines) x hash (6) x '
        '1-3 signers (EdDSA/ECDSA/DSA/RSA) x direction (PGPy signs / reference signs) x transport form (str, UTF-8 bytes, CRLF). '
        'Checked: same text and signature octets after reload, still verifies; every transported line starting with "-" is "- "-escaped and '
        'unescaped exactly once (reference reader); Hash: header names the digests used; reference canonicaliser (CRLF, trailing blanks '
        'removed, no final line ending) + verifier accept PGPy\'s signature on LF/CRLF texts; PGPy verifies reference-made messages and '
        'returns their text. Non-trivial: text has a dash-escaped line, trailing blanks, CRLF or non-ASCII; distinct by class vector x hash '
        'x signer count x direction.')
RULE += ' The line alphabet includes characters Python treats as blanks / line boundaries but RFC 4880 7.1 does not (U+00A0, U+3000, FF, VT, NEL, FS, U+2028). Several signers use differing hashes; the re-read message is co-signed with a further hash and exported again; foreign messages announce their hashes in one header, one header per hash, or with blanks after the commas.'
ASSUMPTIONS = ['refpgp.armor implements RFC 4880 section 7 independently', 'lone-CR texts take part in the round-trip clause only (RFC 4880 does not '
               'define a lone CR as a line ending)', 'the cleartext travels in the transport\'s line-ending convention: text equality after reload is '
               'modulo CRLF/LF', 'non-ASCII armored text is handed to from_blob as UTF-8 bytes, as str or (foreign messages whose text Latin-1 can hold) as Latin-1 bytes',
               'a lone CR at the very end of the text is not compared (indistinguishable from a CRLF separator on the wire)']

LINES = ['', 'plain line', '-dash at start', '- dash space', '--', '-----BEGIN PGP SIGNATURE-----', '-----BEGIN PGP SIGNED MESSAGE-----', '-----END PGP MESSAGE-----',
         'From the beginning', 'from lower', 'trailing space ', 'trailing tab\t', 'both \t ', '   ', '\t', ' leading', 'Hash: SHA1', 'ünïcödé', 'ÿ latin-1 only',
         '日本語', 'astral 🎉 𝒳', 'x' * 5000, '=abcd', 'a-b', '- ', '-', 'Comment: not a header',
         # characters Python's str methods treat as white space / line boundaries but RFC 4880 7.1 does not (only space and tab are stripped, only LF / CRLF end a line)
         'no-break space at end\u00a0', 'ideographic space at end\u3000', 'form feed at end\x0c', 'vertical tab\x0b', 'next-line\u0085',
         'file separator\x1c', 'line separator\u2028 inside', 'en quad\u2000 ', '\u00a0', '- \x0c']
SIGNERS = ['ed25519-0', 'ecdsa-p256-0', 'dsa1024-0', 'rsa1024-0', 'ecdsa-p521-0']


def text_strategy():
    line = st.one_of(st.sampled_from(LINES), st.text(alphabet=' -abF\tü\u00a0\x0c', max_size=12))
    eol = st.sampled_from(['\n', '\n', '\n', '\r\n', '\r'])
    return st.builds(lambda ls, es, final: ''.join(l + e for l, e in zip(ls, es)) if final else ''.join(l + e for l, e in zip(ls, es))[:-len(es[min(len(ls), len(es)) - 1])] if ls else '',
                     st.lists(line, max_size=7), st.lists(eol, min_size=7, max_size=7), st.booleans())


def classes(text):
    lines = text.replace('\r\n', '\n').split('\n')
    c = []
    if any(l.startswith('-') for l in lines):
        c.append('dash')
    if any(l.startswith('From ') for l in lines):
        c.append('from')
    if any(l.startswith('-----') for l in lines):
        c.append('armor-like')
    if any(l.endswith((' ', '\t')) for l in lines):
        c.append('trailing-blank')
    if '\r\n' in text:
        c.append('crlf')
    if '\r' in text.replace('\r\n', ''):
        c.append('lone-cr')
    if any(ord(ch) > 127 for ch in text):
        c.append('non-ascii')
    if any(ord(ch) > 0xFFFF for ch in text):
        c.append('astral')
    if any(l and l[-1].isspace() and l[-1] not in ' \t\r' for l in lines):
        c.append('trailing-unicode-space')
    if any(ch in text for ch in '\x0b\x0c\x1c\x1d\x1e\x85\u2028\u2029'):
        c.append('python-line-boundary-char')
    if any(len(l) > 1000 for l in lines):
        c.append('long-line')
    if not text:
        c.append('empty')
    if text and not text.endswith('\n'):
        c.append('no-final-eol')
    return c


def case_strategy():
    return st.fixed_dictionaries({
        'dir': st.sampled_from(['pgpy', 'pgpy', 'ref']),
        'text': text_strategy(),
        'halg': st.sampled_from(sigkit.HASH_IDS),
        'signers': st.lists(st.sampled_from(SIGNERS), min_size=1, max_size=3, unique=True),
        'form': st.sampled_from(['str', 'utf8', 'crlf', 'latin1']),
    })


def norm(t):
    # the cleartext travels in the transport's line-ending convention
    return t.replace('\r\n', '\n')


def same_text(got, want):
    """equality modulo CRLF/LF; a lone CR at the very end of the *original* text is indistinguishable on the wire from
    the CRLF form of the separator before the signature block, so it may be lost (but never gained)"""
    a, b = norm(got), norm(want)
    return a == b or (b.endswith('\r') and a == b[:-1])


def region(text, cl):
    """input predicate used to key findings narrowly"""
    if 'non-ascii' in cl:
        return 'non-ascii-text'
    if 'trailing-blank' in cl:
        return 'trailing-blanks'
    if 'lone-cr' in cl:
        return 'lone-cr'
    if 'crlf' in cl:
        return 'crlf'
    return 'plain'


def transport(s, form):
    if form == 'latin1':
        # a file in another character set than UTF-8 (what gpg --clearsign makes of a Latin-1 file); texts it cannot hold travel as UTF-8
        try:
            b = s.encode('latin-1')
            return b if not b.isascii() else s.encode('utf-8')
        except UnicodeEncodeError:
            return s.encode('utf-8')
    if form == 'utf8':
        return s.encode('utf-8')
    if form == 'crlf':
        return s.replace('\r\n', '\n').replace('\n', '\r\n')
    return s


def eval_pgpy(c, rec, cl):
    import pgpy
    from pgpy.constants import HashAlgorithm
    text = c['text']
    reg = region(text, cl)
    try:
        msg = pgpy.PGPMessage.new(text, cleartext=True)
        # several signers use differing hash algorithms (signer i: the i-th algorithm after the drawn one)
        hset = [sigkit.HASH_IDS[(sigkit.HASH_IDS.index(c['halg']) + i) % len(sigkit.HASH_IDS)] for i in range(len(c['signers']))]
        for kid, h in zip(c['signers'], hset):
            msg |= keypool.pgpy_key(keypool.ref_cert(kid, secret=True)).sign(msg, hash=HashAlgorithm(h))
        out = str(msg)
        sigs = sorted(bytes(s.__bytearray__()) for s in msg.signatures)
    except Exception as e:   # noqa
        rec.finding('sign', 'exception/%s/%s' % (reg, harness.exc_key(e)), c, repr(e))
        return
    if msg.message != text:
        rec.finding('roundtrip', 'text-as-built/' + reg, c, '%r != %r' % (msg.message[:60], text[:60]))
    # ---- the armored form, read by the reference
    try:
        blk = armor.read_blocks(out)[0]
        if blk.label != 'SIGNED MESSAGE':
            raise wire.WireError('label %r' % blk.label)
        ref_text = blk.cleartext
    except (wire.WireError, IndexError) as e:
        rec.finding('framework', 'reference-reader-rejects/' + reg, c, str(e))
        ref_text = None
    if ref_text is not None:
        if 'lone-cr' not in cl and not same_text(ref_text, text):
            rec.finding('framework', 'dash-escape/' + reg, c, 'reference reader recovers %r, signed text was %r' % (ref_text[:60], text[:60]))
        want_hashes = sorted({sigkit.HASHES[h] for h in hset})
        if sorted(blk.hash_headers) != want_hashes:
            rec.finding('framework', 'hash-header', c, '%r != %r' % (blk.hash_headers, want_hashes))
        if sorted(p.raw for p in wire.split_packets(blk.data)) != sigs and sorted(wire.build_packet(2, p.body) for p in wire.split_packets(blk.data)) != sigs:
            rec.finding('framework', 'signature-packets', c, 'armored signature block differs from the message signatures')
        # ---- conformance: reference canonicaliser + verifier (LF/CRLF texts only)
        if 'lone-cr' not in cl:
            signed = armor.cleartext_signed_octets(ref_text)
            for p in wire.split_packets(blk.data):
                s = rsig.parse_sig_body(p.body)
                iss = rsig.issuer_keyid(s)
                pk = [keypool.ref_public(k) for k in c['signers'] if keypool.ref_public(k).keyid == iss]
                ok = bool(pk) and s.sigtype == 0x01 and rsig.verify(s, ('text', signed), pk[0])[0]
                if not ok:
                    rec.finding('conformance', 'reference-rejects/' + reg, c, 'signature by %s (type %02x) not valid over the 7.1 canonical text' % (iss.hex() if iss else None, s.sigtype))
    # ---- reload
    try:
        back = pgpy.PGPMessage.from_blob(transport(out, c['form']))
    except Exception as e:   # noqa
        rec.finding('roundtrip', 'reload-exception/%s' % reg, c, repr(e))
        return
    try:
        if back.type != 'cleartext':
            rec.finding('roundtrip', 'reload-type/' + reg, c, back.type)
            return
        if not same_text(back.message, text):
            rec.finding('roundtrip', 'text/' + reg, c, '%r != %r' % (back.message[:60], text[:60]))
        if sorted(bytes(s.__bytearray__()) for s in back.signatures) != sigs:
            rec.finding('roundtrip', 'signatures/' + reg, c, 'signature octets changed')
        for kid in c['signers']:
            if not keypool.pgpy_key(keypool.ref_cert(kid, secret=False)).verify(back):
                rec.finding('roundtrip', 'no-longer-verifies/' + reg, c, kid)
    except Exception as e:   # noqa
        rec.finding('roundtrip', 'verify-exception/%s/%s' % (reg, harness.exc_key(e)), c, repr(e))
        return
    # ---- a further signer co-signs the message that was read back, with a hash algorithm not used so far
    if 'lone-cr' in cl or len(text) % 2:
        return
    try:
        other = [h for h in sigkit.HASH_IDS if h not in hset][len(text) % (len(sigkit.HASH_IDS) - len(set(hset)))]
        kid2 = [k for k in SIGNERS if k not in c['signers']][len(text) % (len(SIGNERS) - len(c['signers']))]
        back |= keypool.pgpy_key(keypool.ref_cert(kid2, secret=True)).sign(back, hash=HashAlgorithm(other))
        blk2 = armor.read_blocks(str(back))[0]
        rec.note('co-signed-after-reload')
        missing = {sigkit.HASHES[h] for h in hset + [other]} - set(blk2.hash_headers)
        if missing:
            rec.finding('framework', 'hash-header-after-co-signing', c, 'Hash: header %r does not announce %r' % (blk2.hash_headers, sorted(missing)))
        signed = armor.cleartext_signed_octets(blk2.cleartext)
        npk = wire.split_packets(blk2.data)
        if len(npk) != len(c['signers']) + 1:
            rec.finding('framework', 'signature-count-after-co-signing', c, '%d' % len(npk))
        for p in npk:
            s_ = rsig.parse_sig_body(p.body)
            pk = [keypool.ref_public(k) for k in c['signers'] + [kid2] if keypool.ref_public(k).keyid == rsig.issuer_keyid(s_)]
            if not (pk and rsig.verify(s_, ('text', signed), pk[0])[0]):
                rec.finding('conformance', 'reference-rejects-after-co-signing/' + reg, c, 'hash %d' % s_.halg)
    except wire.WireError as e:
        rec.finding('framework', 'reference-reader-rejects-after-co-signing/' + reg, c, str(e))
    except Exception as e:   # noqa
        rec.finding('sign', 'co-sign-exception/%s/%s' % (reg, harness.exc_key(e)), c, repr(e))


def eval_ref(c, rec, cl):
    import pgpy
    text = c['text']
    if 'lone-cr' in cl:
        text = text.replace('\r\n', '\n').replace('\r', '')
        cl = classes(text)
    reg = region(text, cl)
    signed = armor.cleartext_signed_octets(text)
    if c['form'] == 'latin1':
        try:
            if not text.encode('latin-1').isascii():
                # the signer works on the octets of the file, which is Latin-1
                signed = signed.decode('utf-8').encode('latin-1')
                rec.note('foreign-text-in-latin-1')
        except UnicodeEncodeError:
            pass
    pkts = b''
    hset = [sigkit.HASH_IDS[(sigkit.HASH_IDS.index(c['halg']) + i) % len(sigkit.HASH_IDS)] for i in range(len(c['signers']))]
    for kid, h in zip(c['signers'], hset):
        sec = keypool.ref_secret(kid)
        body = rsig.sign(sec, 0x01, h, ('text', signed), keypool.std_hashed(1600000000, sec.pub.fingerprint), keypool.sp(16, sec.pub.keyid))
        pkts += wire.build_packet(2, body)
    names = []
    for h in hset:
        if sigkit.HASHES[h] not in names:
            names.append(sigkit.HASHES[h])
    style = ['comma', 'lines', 'comma-space'][(len(text) + len(c['signers'])) % 3]
    rec.note('foreign-hash-header-style/' + style + ('/several' if len(names) > 1 else '/one'))
    out = armor.write_cleartext(text.replace('\r\n', '\n'), pkts, names, hash_style=style)
    try:
        m = pgpy.PGPMessage.from_blob(transport(out, c['form']))
        if m.type != 'cleartext':
            rec.finding('foreign', 'type/' + reg, c, m.type)
            return
        got = m.message
    except Exception as e:   # noqa
        rec.finding('foreign', 'load-exception/' + reg, c, repr(e))
        return
    if not same_text(got, text):
        rec.finding('foreign', 'text/' + reg, c, '%r != %r' % (got[:60], text[:60]))
    for kid in c['signers']:
        try:
            ok = bool(keypool.pgpy_key(keypool.ref_cert(kid, secret=False)).verify(m))
        except Exception as e:   # noqa
            ok = False
        if not ok:
            rec.finding('foreign', 'valid-signature-rejected/' + reg, c, kid)


def evaluate(c, rec):
    cl = classes(c['text'])
    nontriv = any(x in cl for x in ('dash', 'trailing-blank', 'crlf', 'non-ascii', 'from'))
    rec.case((c['dir'], tuple(cl), c['halg'], len(c['signers']), c['form']), nontriv,
             ['dir/' + c['dir'], 'hash/%d' % c['halg'], 'nsigners/%d' % len(c['signers']), 'form/' + c['form']] + ['text/' + x for x in cl],
             {'dir': c['dir'], 'text': c['text'][:120], 'classes': cl, 'hash': sigkit.HASHES[c['halg']], 'signers': c['signers'], 'form': c['form']})
    if c['dir'] == 'pgpy' and c['form'] == 'latin1':
        # (PGPy signs the UTF-8 octets of a str: transcoding its output would make another document)
        c = dict(c, form='utf8')
    if c['dir'] == 'pgpy':
        eval_pgpy(c, rec, cl)
    else:
        eval_ref(c, rec, cl)


def shard(arg):
    seed, idx, n, bsec = arg
    rec = harness.Rec()
    harness.run_given(case_strategy(), lambda c: evaluate(c, rec), harness.derive_seed('C11', seed, idx), n, harness.Budget(bsec), rec)
    return rec


def matrix(arg):
    part, nparts = arg
    rec = harness.Rec()
    i = 0
    for line in LINES:
        for eol in ('\n', '\r\n'):
            for final in (True, False):
                for d in ('pgpy', 'ref'):
                    i += 1
                    if i % nparts != part:
                        continue
                    text = 'first' + eol + line + eol + 'last' + (eol if final else '')
                    evaluate({'dir': d, 'text': text, 'halg': sigkit.HASH_IDS[i % 6], 'signers': [SIGNERS[i % 3]], 'form': ['str', 'utf8', 'crlf'][i % 3]}, rec)
    evaluate({'dir': 'pgpy', 'text': '', 'halg': 8, 'signers': ['ed25519-0'], 'form': 'str'}, rec)
    return rec


def run(tier, seed):
    tasks = [('matrix', (p, 4)) for p in range(4)]
    n, bsec = (120, 45) if tier == 'quick' else (2500, 600)
    for i in range(12):
        tasks.append(('shard', (seed, i, n, bsec)))
    return harness.pmap('vpgpy.props.c11', 'dispatch', tasks)


def dispatch(task):
    return globals()[task[0]](task[1])


def replay(case):
    rec = harness.Rec()
    evaluate(case, rec)
    return [(f['clause'], f['cause'], f['detail']) for f in rec.findings]
