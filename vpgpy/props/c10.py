"""C10 -- ASCII armor is a faithful, checksummed, correctly labelled envelope.

Oracle: refpgp.armor (strict RFC 4880 section 6 reader, table-driven CRC-24)."""
import warnings

from hypothesis import strategies as st

from .. import harness, keypool, sigkit
from ..refpgp import armor, wire

RULE = ('envelope: every payload length 1..4100 (all residues mod 3 and mod 48) x {zero, 0xFF, pseudo-random} through a minimal Armorable '
        'subclass: str() is decoded by the strict reference reader (payload, label, <=76 columns, CRC-24, headers) and by ascii_unarmor from '
        'str/bytes/bytearray, LF/CRLF, with surrounding text; objects: public key, private key, message, detached signature, cleartext '
        'message x generated header sets: label per kind, from_blob(str) == from_blob(bytes), wrong-kind blocks rejected; corruption: every '
        'single-character substitution (2 alternatives per position) of the base64 body and CRC line of blocks of several lengths must be '
        'reported (exception or the "Incorrect crc24" warning) unless the decoded payload is unchanged. Non-trivial: payload >= 49 octets, or '
        'a corruption case, or an object with headers; distinct by (length, fill, input form) / (kind, header count) / (block, position, char).')
RULE += ' The checksum field is also replaced wholesale by 000000, FFFFFF, the CRC-24 initial value and neighbours, and payloads whose true CRC is 000000 are corrupted like the others. Header values are any printable text (with \': \' inside, empty, UTF-8), surroundings may be non-ASCII; the caller\'s bytearray is untouched and loads twice; the \'=\' of the checksum line and single characters replaced by non-ASCII / control characters count as corruptions.'
RULE += ' Several damaged inputs are loaded in one process under the default warning filter: each must be reported.'
RULE += ' Binary literal messages whose text holds an armored block must load as themselves; white space may trail every armor line.'
ASSUMPTIONS = ['refpgp.armor is an independent section 6 reader/writer; its CRC-24 is checked against the published check value 0x21CF02',
               'the CRC warning is PGPy\'s reporting channel for a payload that does not match its CRC', 'a block without checksum line is well formed (RFC 4880 6.1: the checksum MAY appear)']

B64 = 'ABCDEFGHIJKLMNOPQRSTUVWXYZabcdefghijklmnopqrstuvwxyz0123456789+/'


def blob_class():
    from pgpy.types import Armorable, PGPObject

    class Blob(Armorable, PGPObject):
        label = 'MESSAGE'

        @property
        def magic(self):
            return self.label

        def __init__(self):
            super(Blob, self).__init__()
            self.data = b''
            self.un = None

        def __bytearray__(self):
            return bytearray(self.data)

        def parse(self, packet):
            self.un = self.ascii_unarmor(packet)
            self.data = bytes(self.un['body'])
    return Blob


def fill(n, kind):
    if kind == 'zero':
        return bytes(n)
    if kind == 'ff':
        return b'\xff' * n
    out = bytearray()
    x = (n * 2654435761 + 12345) & 0xFFFFFFFF
    while len(out) < n:
        x = (x * 1103515245 + 12345) & 0xFFFFFFFF
        out += x.to_bytes(4, 'big')
    return bytes(out[:n])


def check_text(rec, text, data, label, headers, case, clause='envelope'):
    """the reference reader's view of an armored text"""
    try:
        blocks = armor.read_blocks(text)
    except wire.WireError as e:
        rec.finding(clause, 'reference-reader-rejects', case, str(e))
        return False
    if len(blocks) != 1:
        rec.finding(clause, 'block-count', case, '%d blocks' % len(blocks))
        return False
    b = blocks[0]
    ok = True
    if b.data != data:
        rec.finding(clause, 'payload', case, 'decoded payload differs from the binary export')
        ok = False
    if b.label != label:
        rec.finding(clause, 'label', case, '%r != %r' % (b.label, label))
        ok = False
    if b.crc is None or b.crc != armor.crc24(data):
        rec.finding(clause, 'crc', case, 'crc %r want %06x' % (b.crc, armor.crc24(data)))
        ok = False
    if any(len(l) > 76 for l in text.split('\n')):
        rec.finding(clause, 'line-length', case, 'a line exceeds 76 characters')
        ok = False
    if headers is not None and [tuple(h) for h in b.headers] != [tuple(h) for h in headers]:
        rec.finding(clause, 'headers', case, '%r != %r' % (b.headers, headers))
        ok = False
    return ok


def w_lengths(arg):
    lo, hi = arg
    Blob = blob_class()
    rec = harness.Rec()
    forms = ['str', 'bytes', 'bytearray', 'crlf', 'surround', 'crlf-bytes', 'nocrc', 'trailing-ws', 'nocrc-crlf', 'trailing-ws-all']
    for n in range(lo, hi):
        for kind in ('zero', 'ff', 'rnd'):
            data = fill(n, kind)
            form = forms[(n + len(kind)) % len(forms)]
            case = {'kind': 'length', 'n': n, 'fill': kind, 'form': form}
            rec.case(('len', n, kind, form), n >= 49, ('envelope/mod3=%d' % (n % 3), 'form/' + form, 'fill/' + kind),
                     {'payload_len': n, 'fill': kind, 'input_form': form})
            b = Blob()
            b.data = data
            try:
                text = str(b)
            except Exception as e:   # noqa
                rec.finding('envelope', 'str-exception/' + harness.exc_key(e), case, repr(e))
                continue
            if not check_text(rec, text, data, 'MESSAGE', [], case):
                continue
            inp = text
            if form in ('crlf', 'crlf-bytes'):
                inp = text.replace('\n', '\r\n')
            if form == 'surround':
                inp = 'Dear Bob,\nhere is the block:\n\n' + text + '\nregards\n-- \nAlice\n'
            if form in ('nocrc', 'nocrc-crlf'):
                # the checksum line is optional (RFC 4880 6.1 "MAY appear"; newer implementations leave it out)
                inp = '\n'.join(l for l in text.split('\n') if not (l.startswith('=') and len(l) == 5))
                if form == 'nocrc-crlf':
                    inp = inp.replace('\n', '\r\n')
            if form == 'trailing-ws':
                # only white space may follow the armor header and tail lines (RFC 4880 6.2): mail transport adds it
                inp = '\n'.join(l + (' \t' if l.startswith('-----') else '') for l in text.split('\n'))
            if form == 'trailing-ws-all':
                # ... and white space at the end of the radix-64 and checksum lines is not part of the data (RFC 2045 6.8; gpg --dearmor reads it)
                inp = '\n'.join(l + (' ' if i % 2 else '\t ') if l and ':' not in l else l for i, l in enumerate(text.split('\n')))
            if form in ('bytes', 'crlf-bytes'):
                inp = inp.encode('ascii')
            elif form == 'bytearray':
                inp = bytearray(inp.encode('ascii'))
            try:
                with warnings.catch_warnings(record=True) as w:
                    warnings.simplefilter('always')
                    back = Blob.from_blob(inp)
                warned = [str(x.message) for x in w if 'crc' in str(x.message).lower()]
            except Exception as e:   # noqa
                rec.finding('unarmor', 'exception/' + form, case, repr(e))
                continue
            if back.data != data:
                rec.finding('unarmor', 'payload/' + form, case, 'ascii_unarmor payload differs (len %d vs %d)' % (len(back.data), n))
            if warned:
                rec.finding('unarmor', 'false-crc-warning/' + form, case, warned[0])
            if back.un['magic'] != 'MESSAGE':
                rec.finding('unarmor', 'magic/' + form, case, repr(back.un['magic']))
    rec.exhaustive['payload lengths 1..4100 x 3 fills'] = True
    return rec


def objects(i):
    """(kind label, object factory)"""
    import pgpy
    from pgpy.constants import CompressionAlgorithm
    kid = keypool.signing_ids(True)[i % len(keypool.signing_ids(True))]
    sec = keypool.pgpy_key(keypool.ref_cert(kid, subkeys=(('cv25519-0', 0x0C),), secret=True))
    kinds = i % 5
    if kinds == 0:
        return 'PUBLIC KEY BLOCK', sec.pubkey, pgpy.PGPKey
    if kinds == 1:
        return 'PRIVATE KEY BLOCK', sec, pgpy.PGPKey
    if kinds == 2:
        m = pgpy.PGPMessage.new(fill(i * 7 % 300, 'rnd'), compression=CompressionAlgorithm(i % 4))
        if i % 2:
            m |= sec.sign(m)
        return 'MESSAGE', m, pgpy.PGPMessage
    if kinds == 3:
        return 'SIGNATURE', sec.sign(b'detached %d' % i), pgpy.PGPSignature
    m = pgpy.PGPMessage.new('cleartext body %d\n- dash line\nlast' % i, cleartext=True)
    m |= sec.sign(m)
    return 'SIGNED MESSAGE', m, pgpy.PGPMessage


HEADER_KEYS = ['Comment', 'Version', 'MessageID', 'X-Custom-9', 'Charset']


def w_objects(arg):
    seed, idx, n = arg
    import pgpy
    rec = harness.Rec()
    # values: any printable text incl. blanks inside and the separator sequence ': ' itself (RFC 4880 6.2: the FIRST colon-space ends the key);
    # an empty value; a few fixed awkward ones
    val = st.one_of(st.text(alphabet=st.characters(min_codepoint=32, max_codepoint=126), min_size=0, max_size=40).map(lambda v: v.strip()),
                    st.sampled_from(['Re: your key', 'a: b: c', '', 'x' * 60, 'https://example.org/?a=1: 2', '=abcd', '-----',
                                     # RFC 4880 6.2: header values are UTF-8 text
                                     'Gr\u00fc\u00dfe', 'Zo\u00eb \u65e5\u672c', 'na\u00efve: caf\u00e9']))
    hdr = st.lists(st.tuples(st.sampled_from(HEADER_KEYS), val), max_size=3, unique_by=lambda kv: kv[0])
    strat = st.fixed_dictionaries({'i': st.integers(0, 10000), 'headers': hdr, 'form': st.sampled_from(['str', 'bytes', 'bytearray', 'crlf', 'surround', 'followed', 'surround-bytes'])})

    def body(c):
        label, obj, cls = objects(c['i'])
        headers = [list(h) for h in c['headers'] if not (h[0] == 'Charset')]
        case = {'kind': 'object', 'i': c['i'], 'headers': headers, 'form': c['form']}
        for k, v in headers:
            obj.ascii_headers[k] = v
        rec.case(('obj', label, len(headers), c['form'], c['i'] % 50), True, ('object/' + label, 'nheaders/%d' % len(headers), 'form/' + c['form']),
                 {'object': label, 'headers': headers, 'input_form': c['form']})
        try:
            text = str(obj)
            data = bytes(obj)
        except Exception as e:   # noqa
            rec.finding('object', 'export-exception/' + harness.exc_key(e), case, repr(e))
            return
        if label == 'SIGNED MESSAGE':
            try:
                blocks = armor.read_blocks(text)
                b = blocks[0]
                if b.label != 'SIGNED MESSAGE' or b.data != data or not b.crc_ok or [list(h) for h in b.headers] != headers:
                    rec.finding('object', 'cleartext-envelope', case, 'label %r crc_ok %r headers %r' % (b.label, b.crc_ok, b.headers))
            except wire.WireError as e:
                rec.finding('object', 'reference-reader-rejects', case, str(e))
        else:
            check_text(rec, text, data, label, headers, case, 'object')
        inp = text
        if c['form'] == 'crlf':
            inp = text.replace('\n', '\r\n')
        elif c['form'] == 'surround':
            inp = ['preamble line\n\n', 'Gr\u00fc\u00dfe,\n\n'][c['i'] % 2] + text + '\ntrailer\n'
        elif c['form'] == 'surround-bytes':
            # the same as bytes, the text in front beginning with a non-ASCII character (UTF-8, Latin-1) or a byte order mark
            pre = ['\u00c9mile wrote:\n\n', '\u00c9mile wrote:\n\n', '\ufeff', '\u00fcber\n'][c['i'] % 4]
            whole = pre + text + '\ntrailer\n'
            inp = whole.encode('utf-8')
            if c['i'] % 4 == 1 and text.isascii():
                # a file in Latin-1 throughout (one character set per input: header values beyond ASCII stay with UTF-8 files)
                inp = whole.encode('latin-1')
        elif c['form'] == 'followed':
            # another armored block of another kind behind it (a mail with the signer's key attached, a file of several blocks): the first block is
            # the object, framed by its own armor tail -- not by the last one of the input
            other = armor.write_block('PUBLIC KEY BLOCK' if label in ('SIGNED MESSAGE', 'MESSAGE', 'SIGNATURE') else 'SIGNATURE', b'\xc2\x04\x04\x00\x16\x08' + bytes(range(40)))
            inp = text + ('\n' if c['i'] % 2 else '') + other
        elif c['form'] == 'bytes':
            inp = text.encode('utf-8')
        elif c['form'] == 'bytearray':
            inp = bytearray(text.encode('utf-8'))
        try:
            with warnings.catch_warnings(record=True) as w:
                warnings.simplefilter('always')
                a = cls.from_blob(inp)
                b2 = cls.from_blob(data) if label != 'SIGNED MESSAGE' else None
            a = a[0] if isinstance(a, tuple) else a
            if b2 is not None:
                b2 = b2[0] if isinstance(b2, tuple) else b2
            warned = [str(x.message) for x in w if 'crc' in str(x.message).lower()]
        except Exception as e:   # noqa
            rec.finding('object', 'load-exception/%s/%s' % (label, c['form']), case, repr(e))
            return
        if warned:
            rec.finding('object', 'false-crc-warning', case, warned[0])
        if bytes(a) != data or (b2 is not None and bytes(b2) != data):
            rec.finding('object', 'armored-vs-binary-load/' + label, case, 'loading the armored text and loading the binary give different objects')
        # input handed over as the caller's bytearray (binary and armored): it is the caller's, and loading it again gives the same object
        if label != 'SIGNED MESSAGE':
            for what, src in (('binary', data), ('armored', text.encode('utf-8'))):
                buf = bytearray(src)
                try:
                    with warnings.catch_warnings():
                        warnings.simplefilter('ignore')
                        o1 = cls.from_blob(buf)
                        kept = bytes(buf) == src
                        o2 = cls.from_blob(buf)
                    o1 = o1[0] if isinstance(o1, tuple) else o1
                    o2 = o2[0] if isinstance(o2, tuple) else o2
                    if not kept:
                        rec.finding('object', 'caller-bytearray-modified/' + what, case, '%s input of %d octets has %d octets after from_blob' % (what, len(src), len(buf)))
                    elif bytes(o1) != data or bytes(o2) != data:
                        rec.finding('object', 'second-load-differs/' + what, case, '')
                except Exception as e:   # noqa
                    rec.finding('object', 'bytearray-load-exception/%s/%s' % (what, label), case, repr(e))
        # the cleartext part travels in the transport's line-ending convention (RFC 4880 7.1): compare modulo CRLF/LF
        if label == 'SIGNED MESSAGE' and a.message.replace('\r\n', '\n') != obj.message.replace('\r\n', '\n'):
            rec.finding('object', 'cleartext-text', case, 'text differs after reload: %r' % (a.message[-30:],))
        if [list(x) for x in a.ascii_headers.items() if x[0] != 'Hash'] != headers and label != 'SIGNED MESSAGE':
            rec.finding('object', 'headers-after-load', case, '%r != %r' % (list(a.ascii_headers.items()), headers))
        # one character of the base64 body or checksum line replaced by a character outside printable ASCII (high bit flipped, control
        # character): the text must not be taken for something else and loaded silently
        if label != 'SIGNED MESSAGE':
            lines_ = text.split('\n')
            blank = lines_.index('')
            start = sum(len(l) + 1 for l in lines_[:blank + 1])
            end = text.index('\n-----END')
            for k in range(3):
                pos = start + (c['i'] * 31 + k * 97) % max(1, end - start)
                if text[pos] in '\n=':
                    continue
                for alt in (chr(ord(text[pos]) | 0x80), '\x0c', '\x00')[k:k + 1]:
                    bad = text[:pos] + alt + text[pos + 1:]
                    inp2 = bad.encode('utf-8') if c['form'] in ('bytes', 'bytearray') else bad
                    try:
                        with warnings.catch_warnings(record=True) as w2:
                            warnings.simplefilter('always')
                            r2 = cls.from_blob(inp2)
                        r2 = r2[0] if isinstance(r2, tuple) else r2
                        reported = any('crc' in str(x.message).lower() for x in w2)
                        same = bytes(r2) == data
                    except Exception:   # noqa
                        reported, same = True, False
                    rec.note('non-ascii-corruption-tried')
                    if not reported and not same:
                        rec.finding('corruption', 'non-ascii-character-not-reported/' + label, case, 'character %r at %d: loaded silently as something else' % (alt, pos))
        # a block of another kind must be rejected
        others = {'PUBLIC KEY BLOCK': [pgpy.PGPMessage, pgpy.PGPSignature], 'PRIVATE KEY BLOCK': [pgpy.PGPMessage, pgpy.PGPSignature],
                  'MESSAGE': [pgpy.PGPKey, pgpy.PGPSignature], 'SIGNATURE': [pgpy.PGPKey, pgpy.PGPMessage], 'SIGNED MESSAGE': [pgpy.PGPKey, pgpy.PGPSignature]}[label]
        for oc in others:
            try:
                r = oc.from_blob(text)
                rec.finding('wrong-kind', '%s-accepted-by-%s' % (label, oc.__name__), case, repr(r))
            except Exception:   # noqa
                pass
    harness.run_given(strat, body, harness.derive_seed('C10', seed, idx), n, None, rec)
    return rec


def w_corrupt(arg):
    n, kind, part, nparts = arg
    Blob = blob_class()
    rec = harness.Rec()
    data = fill(n, kind)
    if kind.endswith('+crc0'):
        # a payload followed by its own CRC-24 has checksum 000000 (no final xor in RFC 4880 6.1): a legitimate "=AAAA"
        data = fill(n, kind[:-5])
        data = data + armor.crc24(data).to_bytes(3, 'big')
        if armor.crc24(data) != 0:
            raise harness.HarnessError('crc-zero construction failed')
    b = Blob()
    b.data = data
    text = str(b)
    # what PGPy wrote must first of all be a block the strict reference reader accepts with a matching checksum
    try:
        rb0 = armor.read_blocks(text)[0]
        good = rb0.data == data and rb0.crc_ok
        why = 'payload or checksum differ'
    except wire.WireError as e:
        good, why = False, str(e)
    if not good:
        rec.case(('corrupt-base', n, kind), True, ('corrupt/base-block-malformed',), {'payload_len': n})
        rec.finding('envelope', 'own-armor-rejected-by-reference', {'kind': 'corrupt', 'n': n, 'fill': kind, 'pos': -1, 'alt': ''}, '%s: %r' % (why, text[-60:]))
        return rec
    lines = text.split('\n')
    # positions of base64 body characters and CRC characters
    positions = []
    off = 0
    in_body = False
    for li, l in enumerate(lines):
        if l == '' and not in_body:
            in_body = True
        elif in_body and l.startswith('='):
            positions += [(off + 1 + k, 'crc') for k in range(min(4, len(l) - 1))]
            in_body = False
        elif in_body and not l.startswith('-----'):
            positions += [(off + k, 'body') for k, ch in enumerate(l) if ch != '=']
        off += len(l) + 1
    # the checksum field replaced wholesale by distinguished values (zero, all ones, the CRC-24 initial value, the CRC of nothing)
    crcpos = [p for p, w_ in positions if w_ == 'crc']
    if part == 0 and crcpos:
        for special in ('AAAA', '////', 'twTO', 'AAAB', 'gAAA'):
            if text[crcpos[0]:crcpos[0] + 4] == special:
                continue
            bad = text[:crcpos[0]] + special + text[crcpos[0] + 4:]
            case = {'kind': 'corrupt-crc-field', 'n': n, 'fill': kind, 'special': special}
            rec.case(('corrupt-crc-field', n, kind, special), True, ('corrupt/crc-field=' + special,), {'payload_len': n, 'where': 'crc', 'field': special})
            try:
                with warnings.catch_warnings(record=True) as w:
                    warnings.simplefilter('always')
                    Blob.from_blob(bad)
                reported = any('crc' in str(x.message).lower() for x in w)
            except Exception:   # noqa
                reported = True
            if not reported:
                rec.finding('corruption', 'not-reported/crc-field-' + special, case, 'checksum field %r (true %r) loaded silently' % (special, text[crcpos[0]:crcpos[0] + 4]))
    # the '=' that opens the checksum line turned into a base64 character (the line then looks like one more body line)
    if part == 0 and crcpos:
        for alt in ('A', 'z', '+', '9'):
            bad = text[:crcpos[0] - 1] + alt + text[crcpos[0]:]
            case = {'kind': 'corrupt-crc-marker', 'n': n, 'fill': kind, 'alt': alt}
            rec.case(('corrupt-crc-marker', n, kind, alt), True, ('corrupt/crc-marker',), {'payload_len': n, 'where': 'crc-marker', 'char': '=->' + alt})
            try:
                with warnings.catch_warnings(record=True) as w:
                    warnings.simplefilter('always')
                    back = Blob.from_blob(bad)
                reported = any('crc' in str(x.message).lower() for x in w) or back.data != data
                # (a reader that takes the line for body text and then delivers another payload has also "reported" nothing: flagged below)
                silent_same = (not any('crc' in str(x.message).lower() for x in w)) and back.data == data
                silent_other = (not any('crc' in str(x.message).lower() for x in w)) and back.data != data
            except Exception:   # noqa
                silent_same = silent_other = False
            if silent_same or silent_other:
                rec.finding('corruption', 'not-reported/crc-marker', case, 'checksum line without its "=" loaded silently (%s payload)' % ('same' if silent_same else 'different'))
    for pi, (pos, where) in enumerate(positions):
        if pi % nparts != part:
            continue
        orig = text[pos]
        # another base64 character (two ways), and - at every fifth position - a character outside printable ASCII (a flipped high bit, a control character)
        for alt in (B64[(B64.index(orig) + 1) % 64], B64[(B64.index(orig) ^ 0x20) % 64]):
            if alt == orig:
                continue
            bad = text[:pos] + alt + text[pos + 1:]
            if ord(alt) > 126 and pi % 10 == 0:
                bad = bad.encode('latin-1')       # the same corruption in a bytes input
            case = {'kind': 'corrupt', 'n': n, 'fill': kind, 'pos': pos, 'alt': alt}
            # is the payload actually different? (the last body character may carry unused bits)
            try:
                rb = armor.read_blocks(bad if isinstance(bad, str) else bad.decode('latin-1'))[0]
                changed = rb.data != data or where == 'crc'
            except wire.WireError:
                changed = True
            rec.case(('corrupt', n, kind, pos, alt), True, ('corrupt/' + where, 'corrupt/changed=%s' % changed, 'corrupt/char=%s' % ('base64' if alt in B64 else 'other')),
                     {'payload_len': n, 'position': pos, 'where': where, 'char': orig + '->' + alt})
            try:
                with warnings.catch_warnings(record=True) as w:
                    warnings.simplefilter('always')
                    back = Blob.from_blob(bad)
                reported = any('crc' in str(x.message).lower() for x in w)
                raised = False
            except Exception:   # noqa
                reported, raised = True, True
            if changed and not reported:
                rec.finding('corruption', 'not-reported/' + where, case, 'corrupted %s character at %d (%s->%s) loaded silently' % (where, pos, orig, alt))
            if not changed and reported and not raised:
                rec.finding('corruption', 'false-report', case, 'payload unchanged but a CRC mismatch was reported')
    return rec


def w_embedded(arg):
    """a binary message whose literal text holds an armored block (a forwarded message, a key pasted into a mail): loading the binary gives
    that message -- not the block inside it -- whatever octets the packet header in front of the text happens to consist of"""
    import pgpy
    seed = arg
    rec = harness.Rec()
    inner = armor.write_block('MESSAGE', wire.build_packet(11, b'b\x00' + wire.u32(0) + b'the inner message'))
    for j, (name, t) in enumerate([(b'forwarded.txt', 0x61626364), (b'notes.txt', 0x5f5e1000), (b'x' * 40, 0x62000000 + seed), (b'a.txt', 0x61626364), (b'forwarded.txt', 5)]):
        for fmt in (b'u', b't', b'b'):
            body = b'see below\n' + inner.encode() + b'\nend\n'
            blob = wire.build_packet(11, fmt + bytes([len(name)]) + name + wire.u32(t) + body)
            if j % 2 == 0 and fmt != b'b':
                # old-format packet of indeterminate length (RFC 4880 4.2.1, length type 3: it runs to the end of the input)
                blob = wire.build_packet(11, fmt + bytes([len(name)]) + name + wire.u32(t) + body, 'old', 3)
            case = {'kind': 'embedded', 'seed': seed}
            printable = all(c >= 0x20 or c in (9, 10, 13) for c in blob[:blob.find(b'-----BEGIN')])
            rec.case(('embedded', j, fmt), True, ('binary-with-armor-inside', 'header-octets/' + ('all-printable' if printable else 'with-control-octets')),
                     {'form': 'binary literal message whose text holds an armored block', 'file_name_octets': len(name), 'format': fmt.decode(), 'header_printable': printable})
            for inp in (blob, bytearray(blob)):
                try:
                    m = pgpy.PGPMessage.from_blob(inp)
                    got = bytes(m)
                    if blob[0] & 0xC3 == 0x83:
                        # (an indeterminate length is re-written as a definite one: the literal packet body is what is compared)
                        got = wire.build_packet(11, wire.split_packets(got)[0].body, 'old', 3) if wire.split_packets(got)[0].tag == 11 else got
                except Exception as e:   # noqa
                    rec.finding('object', 'binary-with-armor-inside/load-exception', case, repr(e))
                    continue
                if got != blob:
                    rec.finding('object', 'binary-with-armor-inside/read-as-the-inner-block', case, 'loaded %d octets, the binary has %d' % (len(got), len(blob)))
    return rec


def w_repeated(arg):
    """several damaged inputs in one process, under Python's default warning filter (which shows a warning once per code location): every
    one of them must be reported, not only the first -- the warning is the only channel the caller has"""
    seed = arg
    Blob = blob_class()
    rec = harness.Rec()
    texts = []
    for j in range(4):
        b = Blob()
        b.data = fill(40 + 7 * j + seed % 5, 'rnd')
        t = str(b)
        lines = t.split('\n')
        body_i = [i for i, l in enumerate(lines) if l and not l.startswith('-') and ':' not in l and not l.startswith('=')][0]
        ch = lines[body_i][3]
        lines[body_i] = lines[body_i][:3] + ('A' if ch != 'A' else 'B') + lines[body_i][4:]
        texts.append('\n'.join(lines))
    with warnings.catch_warnings(record=True) as w:
        warnings.simplefilter('default')
        for j, bad in enumerate(texts):
            case = {'kind': 'repeated', 'seed': seed, 'index': j}
            rec.case(('repeated', seed, j), j > 0, ('corrupt/repeated-in-one-process', 'nth/%d' % j), {'where': 'body', 'nth_damaged_input_of_the_process': j + 1, 'warning_filter': 'default'})
            before = len(w)
            try:
                Blob.from_blob(bad.encode() if j % 2 else bad)
                reported = any('crc' in str(x.message).lower() for x in w[before:])
            except Exception:   # noqa
                reported = True
            if not reported:
                rec.finding('corruption', 'not-reported/later-damaged-input-of-the-process', case, 'damaged input number %d loaded without any report under the default warning filter' % (j + 1))
    return rec


def run(tier, seed):
    tasks = [('w_repeated', seed), ('w_embedded', seed)]
    step = 260
    for lo in range(1, 4101, step):
        tasks.append(('w_lengths', (lo, min(4101, lo + step))))
    nobj = 20 if tier == 'quick' else 320
    for i in range(16):
        tasks.append(('w_objects', (seed, i, nobj)))
    blocks = [(5, 'rnd'), (48, 'ff'), (100, 'rnd'), (49, 'zero'), (30, 'rnd+crc0')] if tier == 'quick' else [(n, k) for n in (1, 2, 3, 47, 48, 49, 100, 333, 1000) for k in ('rnd', 'zero', 'ff', 'rnd+crc0')]
    for n, k in blocks:
        for part in range(2):
            tasks.append(('w_corrupt', (n, k, part, 2)))
    return harness.pmap('vpgpy.props.c10', 'dispatch', tasks)


def dispatch(task):
    return globals()[task[0]](task[1])


def replay(case):
    k = case['kind']
    if k == 'embedded':
        return [(f['clause'], f['cause'], f['detail']) for f in w_embedded(case['seed']).findings]
    if k == 'repeated':
        return [(f['clause'], f['cause'], f['detail']) for f in w_repeated(case['seed']).findings]
    if k == 'length':
        r = w_lengths((case['n'], case['n'] + 1))
    elif k == 'corrupt':
        r = w_corrupt((case['n'], case['fill'], 0, 1))
        r.findings = [f for f in r.findings if f['case'].get('pos') == case['pos'] and f['case'].get('alt') == case['alt']]
    elif k == 'corrupt-crc-marker':
        r = w_corrupt((case['n'], case['fill'], 0, 1))
        r.findings = [f for f in r.findings if f['case'].get('kind') == 'corrupt-crc-marker' and f['case'].get('alt') == case['alt']]
    elif k == 'corrupt-crc-field':
        r = w_corrupt((case['n'], case['fill'], 0, 1))
        r.findings = [f for f in r.findings if f['case'].get('special') == case['special']]
    else:
        r = harness.Rec()
        # objects are rebuilt from the index; headers and form from the case
        import hypothesis  # noqa
        rec = r
        label, obj, cls = objects(case['i'])
        for kk, v in case['headers']:
            obj.ascii_headers[kk] = v
        text = str(obj)
        check_text(rec, text, bytes(obj), label, case['headers'], case, 'object') if label != 'SIGNED MESSAGE' else None
    return [(f['clause'], f['cause'], f['detail']) for f in r.findings]
