"""C13 -- every operation draws fresh secret randomness of the right size.

Histories of encrypt / protect operations in one process, on the same or different message and key objects.
os.urandom is interposed for the duration of each operation (value and length recorded, then delegated); the
outputs are parsed and decrypted by the reference to recover session key, prefix, salts, IVs and ephemeral
points.  Per operation: sizes are right and the values were drawn from the random source during this very
operation; across the history: pairwise distinct, not degenerate, and no session key occurs in any output."""
import os

from hypothesis import strategies as st

from .. import harness, keypool, enckit
from ..refpgp import wire, keys as rkeys, grammar, enc as renc, sym as rsym, s2k as rs2k

RULE = ('Hypothesis draws histories of 2-8 operations over 3 reusable PGPMessage objects and 2 private keys: passphrase encryption (9 ciphers x S2K hash), public-key '
        'encryption to RSA / ECDH (Curve25519, P-256, P-384, P-521, secp256k1) subkeys, multi-recipient encryption with a gen_key() session key, protect and re-protect '
        '(same or other passphrase/cipher/hash, also after export/import); includes encrypting the identical message object to the identical recipient repeatedly. '
        'Non-trivial: a history with >= 2 operations on identical inputs; distinct by (operation kinds, ciphers, recipient kinds).')
RULE += ' One operation encrypts a message for 2-3 passphrases (optionally plus a key recipient) sharing a session key: every SKESK must carry its own fresh salt.'
RULE += ' Supplied session keys of another length that the backend takes for the cipher family must be refused (or never used).'
ASSUMPTIONS = ['unpredictability of the OS random source is out of scope; provenance (drawn from os.urandom during the operation), size, distinctness and non-appearance are checked',
               'ECDH ephemeral keys come from the cryptography library\'s generator and are only checked for distinctness', 'refpgp.enc/keys recover the values from the output']

MSGS = [b'', b'the same message every time', bytes(range(256)) * 3]
PWS = ['pw one', 'pw one', 'pässwörd']
KEYS = ['ed25519-0', 'ecdsa-p256-0']
RECIPS = ['cv25519-0', 'ecdh-p256-0', 'ecdh-p384-0', 'ecdh-p521-0', 'ecdh-k256-0', 'rsa1024-0']


class Tap(object):
    def __init__(self):
        self.real = os.urandom
        self.values = []

    def __enter__(self):
        def tapped(n):
            v = self.real(n)
            self.values.append(v)
            return v
        os.urandom = tapped
        return self

    def __exit__(self, *a):
        os.urandom = self.real
        return False


def op_strategy():
    cipher = st.sampled_from(enckit.CIPHERS)
    return st.one_of(
        st.tuples(st.just('enc_pass'), st.integers(0, 2), cipher, st.sampled_from([8, 2, 10]), st.integers(0, 2)),
        st.tuples(st.just('enc_key'), st.integers(0, 2), cipher, st.sampled_from(RECIPS)),
        st.tuples(st.just('enc_key'), st.integers(0, 2), cipher, st.sampled_from(RECIPS)),
        st.tuples(st.just('enc_multi'), st.integers(0, 2), cipher, st.lists(st.sampled_from(RECIPS), min_size=2, max_size=3, unique=True)),
        # one message for several passphrases (and optionally a key recipient as well) sharing a session key
        st.tuples(st.just('enc_multipass'), st.integers(0, 2), cipher, st.sampled_from([8, 2, 10]), st.lists(st.integers(0, 2), min_size=2, max_size=3), st.sampled_from([None, None] + RECIPS[:2])),
        st.tuples(st.just('protect'), st.integers(0, 1), st.sampled_from([7, 9, 3, 13]), st.sampled_from([8, 2]), st.integers(0, 2)),
        st.tuples(st.just('reimport'), st.integers(0, 1)),
    ).map(list)


def history_strategy():
    return st.lists(op_strategy(), min_size=2, max_size=8)


def degenerate(b):
    return len(b) > 0 and (len(set(b)) == 1)


def run_history(ops, rec):
    import pgpy
    from pgpy.constants import SymmetricKeyAlgorithm, HashAlgorithm, CompressionAlgorithm
    msgs = [pgpy.PGPMessage.new(m, compression=CompressionAlgorithm.Uncompressed) for m in MSGS]
    privs = [keypool.pgpy_key(keypool.ref_cert(k, subkeys=(('cv25519-1', 0x0C),), secret=True)) for k in KEYS]
    priv_pw = [None, None]
    pubcert = keypool.pgpy_key(enckit.recipient_cert(RECIPS, secret=False))
    subs = {str(s.fingerprint): s for s in pubcert.subkeys.values()}
    seen = {'session': [], 'prefix': [], 'salt': [], 'iv': [], 'eph': []}
    outputs = []
    findings = []
    kinds = []

    def note(kind, value, where, drawn=None, size=None):
        if size is not None and len(value) != size:
            findings.append(('size', '%s-size' % kind, '%s: %s has %d octets, expected %d' % (where, kind, len(value), size)))
        if degenerate(value) and len(value) >= 4:
            findings.append(('degenerate', '%s-constant-pattern' % kind, '%s: %s' % (where, value.hex())))
        if drawn is not None and value not in drawn:
            findings.append(('provenance', '%s-not-drawn-during-operation' % kind, '%s: %s was not produced by the random source during this operation' % (where, kind)))
        for prev, pw in seen[kind]:
            if prev == value:
                findings.append(('reuse', '%s-reused' % kind, '%s: same %s as in %s' % (where, kind, pw)))
        seen[kind].append((value, where))

    for n, op in enumerate(ops):
        where = 'op %d %s' % (n, op[0])
        kinds.append(op[0])
        try:
            if op[0] in ('enc_pass', 'enc_key', 'enc_multi', 'enc_multipass'):
                msg = msgs[op[1]]
                cipher = op[2]
                C_ = SymmetricKeyAlgorithm(cipher)
                with Tap() as tap:
                    if op[0] == 'enc_pass':
                        e = msg.encrypt(PWS[op[4]], cipher=C_, hash=HashAlgorithm(op[3]))
                    elif op[0] == 'enc_key':
                        sub = subs[keypool.ref_public(op[3]).fingerprint.hex().upper()]
                        e = sub.encrypt(msg, cipher=C_)
                    elif op[0] == 'enc_multipass':
                        sk = C_.gen_key()
                        e = msg
                        for pwi in op[4]:
                            e = e.encrypt(PWS[pwi], cipher=C_, hash=HashAlgorithm(op[3]), sessionkey=sk)
                        if op[5] is not None:
                            e = subs[keypool.ref_public(op[5]).fingerprint.hex().upper()].encrypt(e, cipher=C_, sessionkey=sk)
                    else:
                        sk = C_.gen_key()
                        e = msg
                        for r in op[3]:
                            e = subs[keypool.ref_public(r).fingerprint.hex().upper()].encrypt(e, cipher=C_, sessionkey=sk)
                    blob = bytes(e)
                drawn = list(tap.values)
                outputs.append((where, blob))
                pm = grammar.parse_message(blob)
                # recover the session key through every recipient
                sessions = []
                pwq = [PWS[i] for i in op[4]] if op[0] == 'enc_multipass' else [PWS[op[4]]] if op[0] == 'enc_pass' else []
                for p in pm.esks:
                    if p.tag == 3:
                        k = renc.parse_skesk(p.body)
                        note('salt', k.s2k.salt, where + ' SKESK salt', drawn, 8)
                        # the order of the session-key packets is PGPy's business: each must open under one of the passphrases used
                        symid = key = None
                        for cand_pw in pwq:
                            try:
                                symid, key = renc.skesk_decrypt(k, cand_pw)
                            except wire.WireError:
                                continue
                            # (a v4 SKESK carries no checksum: a wrong passphrase yields garbage that may look plausible, so the
                            # candidate is accepted only if it yields the session key that was handed to PGPy, when one was)
                            if symid == cipher and len(key) == rsym.KEYLEN[cipher] and (op[0] != 'enc_multipass' or bytes(key) == bytes(sk)):
                                break
                            symid = key = None
                        if key is None:
                            raise wire.WireError('SKESK opens under none of the passphrases used')
                    else:
                        ps = renc.parse_pkesk(p.body)
                        kid = [r for r in RECIPS if keypool.ref_public(r).keyid == ps.keyid][0]
                        symid, key = renc.pkesk_decrypt(ps, keypool.ref_secret(kid))
                        if ps.alg == 18:
                            note('eph', ps.point, where + ' ECDH ephemeral point')
                    if symid != cipher:
                        findings.append(('size', 'cipher-id', '%s: session key packet names cipher %d, requested %d' % (where, symid, cipher)))
                    sessions.append(key)
                if len(set(sessions)) != 1:
                    findings.append(('size', 'recipients-disagree-on-session-key', where))
                pt, prefix = renc.seipd_decrypt(pm.container.body, cipher, sessions[0])
                note('session', sessions[0], where + ' session key', drawn, rsym.KEYLEN[cipher])
                note('prefix', prefix, where + ' prefix', drawn, rsym.BLOCK[cipher])
            elif op[0] == 'protect':
                i = op[1]
                key = privs[i]
                pw = PWS[op[4]]
                with Tap() as tap:
                    if priv_pw[i] is not None:
                        with key.unlock(priv_pw[i]):
                            key.protect(pw, SymmetricKeyAlgorithm(op[2]), HashAlgorithm(op[3]))
                    else:
                        key.protect(pw, SymmetricKeyAlgorithm(op[2]), HashAlgorithm(op[3]))
                    blob = bytes(key)
                priv_pw[i] = pw
                drawn = list(tap.values)
                outputs.append((where, blob))
                for p in wire.split_packets(blob):
                    if p.tag in (5, 7):
                        sk = rkeys.parse_secret_body(p.body)
                        if sk.usage not in (254, 255):
                            findings.append(('size', 'not-protected', where))
                            continue
                        note('salt', sk.s2k.salt, where + ' protection salt (tag %d)' % p.tag, drawn, 8)
                        note('iv', sk.iv, where + ' protection IV (tag %d)' % p.tag, drawn, rsym.BLOCK[op[2]])
                        rkeys.unlock(sk, pw)     # the reference must be able to open it with the passphrase
            else:
                i = op[1]
                privs[i] = pgpy.PGPKey.from_blob(bytes(privs[i]))[0]
        except wire.WireError as e:
            findings.append(('reference', 'cannot-recover/%s' % op[0], '%s: %s' % (where, e)))
        except Exception as e:   # noqa
            findings.append(('operation', 'exception/%s/%s' % (op[0], harness.exc_key(e)), '%s: %r' % (where, e)))
    # no session key occurs in the clear in any output of the history
    for value, w in seen['session']:
        for ow, blob in outputs:
            if value in blob:
                findings.append(('leak', 'session-key-in-output', 'session key of %s occurs in the clear in the output of %s' % (w, ow)))
    return findings, kinds, {k: len(v) for k, v in seen.items()}


def classify(rec, ops, findings, kinds, counts):
    sig = [tuple(o[:3]) if o[0].startswith('enc') else tuple(o[:2]) for o in ops]
    repeated = len(sig) != len(set(map(str, sig)))
    rec.case(('hist', tuple(kinds), tuple(str(o[2]) for o in ops if len(o) > 2)), bool(repeated), ['len/%d' % len(ops), 'repeated-inputs/%s' % repeated] + ['op/' + k for k in set(kinds)],
             {'operations': ops, 'values_observed': counts})
    for clause, cause, det in findings:
        rec.finding(clause, cause, {'ops': ops}, det)


def shard(arg):
    seed, idx, n, bsec = arg
    rec = harness.Rec()

    def body(ops):
        f, kinds, counts = run_history(ops, rec)
        classify(rec, ops, f, kinds, counts)
    harness.run_given(history_strategy(), body, harness.derive_seed('C13', seed, idx), n, harness.Budget(bsec), rec)
    return rec


SCRIPTS = [
    [['enc_key', 1, 9, 'cv25519-0'], ['enc_key', 1, 9, 'cv25519-0'], ['enc_key', 1, 7, 'cv25519-0'], ['enc_key', 1, 2, 'rsa1024-0'], ['enc_key', 1, 9, 'rsa1024-0']],
    [['enc_pass', 1, 9, 8, 0], ['enc_pass', 1, 9, 8, 0], ['enc_pass', 1, 3, 8, 1]],
    [['enc_multipass', 1, 9, 8, [0, 1], None], ['enc_multipass', 1, 9, 8, [0, 0, 2], 'cv25519-0'], ['enc_multipass', 0, 3, 2, [2, 1], 'rsa1024-0']],
    [['protect', 0, 9, 8, 0], ['protect', 0, 9, 8, 0], ['protect', 0, 7, 8, 2], ['reimport', 0], ['protect', 0, 7, 8, 2], ['protect', 0, 3, 2, 0]],
    [['enc_multi', 2, 8, ['cv25519-0', 'ecdh-p521-0', 'rsa1024-0']], ['enc_multi', 2, 8, ['cv25519-0', 'ecdh-p521-0', 'rsa1024-0']], ['enc_key', 2, 13, 'ecdh-p384-0'], ['enc_key', 2, 4, 'ecdh-k256-0']],
]


def scripted(arg):
    rec = harness.Rec()
    ops = SCRIPTS[arg]
    f, kinds, counts = run_history(ops, rec)
    classify(rec, ops, f, kinds, counts)
    return rec


OTHER_LENGTHS = {2: (8, 16), 3: (5, 8), 4: (4, 32), 7: (24, 32), 8: (16, 32), 9: (16, 24), 11: (24, 32), 12: (16, 32), 13: (16, 24)}


def wronglen(arg):
    """a caller-supplied session key of a length the backend takes for the cipher's family but that is not the cipher's key size
    (AES-256 with 16 octets, Triple-DES with 8 = single DES): refused, or the message carries a key of the cipher's size all the same --
    never a message labelled with cipher X under a key that is not X's size"""
    import pgpy
    from pgpy.constants import SymmetricKeyAlgorithm, CompressionAlgorithm
    seed = arg
    rec = harness.Rec()
    pubcert = keypool.pgpy_key(enckit.recipient_cert(RECIPS, secret=False))
    subs = {str(s.fingerprint): s for s in pubcert.subkeys.values()}
    for ci, (cipher, lens) in enumerate(sorted(OTHER_LENGTHS.items())):
        for li, L in enumerate(lens):
            kind = ['pass', 'cv25519-0', 'rsa1024-0', 'ecdh-p256-0'][(ci + li + seed) % 4]
            case = {'kind': 'wronglen', 'cipher': cipher, 'len': L, 'recipient': kind}
            rec.case(('wronglen', cipher, L, kind), True, ['supplied-key-of-another-length', 'cipher/%d' % cipher, 'recipient/' + kind.split('-')[0]],
                     {'cipher': cipher, 'supplied_key_octets': L, 'cipher_key_octets': rsym.KEYLEN[cipher], 'recipient': kind})
            sk = bytes((17 * i + 3 + seed) & 0xFF for i in range(L))
            msg = pgpy.PGPMessage.new(b'wrong length', compression=CompressionAlgorithm.Uncompressed)
            try:
                if kind == 'pass':
                    e = msg.encrypt('pw', cipher=SymmetricKeyAlgorithm(cipher), sessionkey=sk)
                else:
                    e = subs[keypool.ref_public(kind).fingerprint.hex().upper()].encrypt(msg, cipher=SymmetricKeyAlgorithm(cipher), sessionkey=sk)
                blob = bytes(e)
            except Exception:   # noqa
                rec.note('supplied-key-of-another-length/refused')
                continue
            try:
                pm = grammar.parse_message(blob)
                p = pm.esks[0]
                if p.tag == 3:
                    symid, key = renc.skesk_decrypt(renc.parse_skesk(p.body), 'pw')
                else:
                    symid, key = renc.pkesk_decrypt(renc.parse_pkesk(p.body), keypool.ref_secret(kind))
            except wire.WireError as ex:
                rec.finding('size', 'session-key-size/supplied-key-of-another-length', case, 'the recipient cannot recover a session key: %s' % ex)
                continue
            if len(key) != rsym.KEYLEN[cipher]:
                rec.finding('size', 'session-key-size/supplied-key-of-another-length', case, 'cipher %d message under a key of %d octets' % (cipher, len(key)))
    return rec


def run(tier, seed):
    tasks = [('scripted', i) for i in range(len(SCRIPTS))] + [('wronglen', seed)]
    n, bsec = (40, 90) if tier == 'quick' else (400, 1200)
    for i in range(12 if tier == 'quick' else 28):
        tasks.append(('shard', (seed, i, n, bsec)))
    return harness.pmap('vpgpy.props.c13', 'dispatch', tasks)


def dispatch(task):
    return globals()[task[0]](task[1])


def replay(case):
    if case.get('kind') == 'wronglen':
        return [(f['clause'], f['cause'], f['detail']) for f in wronglen(0).findings]
    f, kinds, counts = run_history(case['ops'], harness.Rec())
    return f
