"""C20 -- messages are well-formed OpenPGP compositions and keep content and metadata.

Oracle: refpgp.grammar (section 11.3 recogniser: one-pass packets mirror the trailing signatures in reverse
order, only the last flagged final, one literal, compression around the whole sequence; encrypted = ESK* +
one container) and a round trip through export/import; foreign messages built by the reference (old-format,
partial-length, compressed by each algorithm) must import with the same content."""
import calendar
import datetime
import os
import shutil
import tempfile

from hypothesis import strategies as st

from .. import harness, keypool
from ..refpgp import wire, keys as rkeys, sig as rsig, grammar, armor

RULE = ('Hypothesis draws content (empty/ASCII/UTF-8 incl. astral/Latin-1 bytes with an encoding hint/arbitrary binary/64 KiB; megabytes in '
        'thorough) x format (b,t,u,auto) x file name+mtime via file=True (non-ASCII, 255 octets, for-your-eyes-only) x compression (4) x 0-4 '
        'signers (EdDSA/ECDSA/DSA/RSA, any order, equal or differing creation times) x transport (binary/armor), plus reference-built foreign '
        'messages (old/new/partial/indeterminate headers, each compression, 0-3 signers). Checked: reference grammar + one-pass/signature pairing '
        '+ last flag, compression scope, octet-exact literal body, import returns the same content/filename/time/format/compression/signature '
        'multiset, signatures verify under PGPy and the reference. Non-trivial: >=2 signers, or compressed+signed, or non-ASCII content/file name, or '
        'foreign encoding; distinct by (signer count, compression, format, content class, direction).')
RULE += ' Contents include incompressible blocks repeated at distances 8200..33000 (DEFLATE matches up to the full window) under every compression, both directions.'
RULE += ' Signers may leave out the issuer subpacket or name themselves by fingerprint only; text given under format t must read back as given.'
ASSUMPTIONS = ['refpgp.grammar recogniser and zlib/bz2 (shared) are trusted', 'literal time compared at one-second resolution',
               'file names and times are supplied through PGPMessage.new(file=True) on temporary files, the only public way to set them',
               'text under format "t" in a charset other than UTF-8 is compared as octets when the transport is binary (no Charset hint survives it)']

SIGNERS = ['ed25519-0', 'ecdsa-p256-0', 'dsa1024-0', 'rsa1024-0', 'ecdsa-p384-0', 'ed25519-1']
CONTENTS = [b'', b'a', b'plain ascii text\n', 'héllo wörld'.encode(), '日本語テキスト 🎉'.encode(), bytes(range(256)), b'\x00' * 100, b'\xff\xfe\xfd',
            b'line one\r\nline two\nline three\r', 'caf\xe9 latin-1'.encode('latin-1')]


def content_octets(spec):
    """hex, or 'repeat:N:K' = an incompressible N-octet block stored K times (a DEFLATE match at distance N: needs a window of more than N octets)"""
    if spec.startswith('repeat:'):
        _, n, k = spec.split(':')
        out = bytearray()
        x = 12345
        while len(out) < int(n):
            x = (x * 1103515245 + 12345) & 0x7FFFFFFF
            out += x.to_bytes(4, 'big')[1:]
        return bytes(out[:int(n)]) * int(k)
    return bytes.fromhex(spec)


def content_class(b):
    if not b:
        return 'empty'
    try:
        t = b.decode('utf-8')
        return 'ascii' if all(ord(c) < 128 for c in t) else 'utf8'
    except UnicodeDecodeError:
        return 'binary'


def case_strategy(big):
    content = st.one_of(st.sampled_from(CONTENTS), st.binary(max_size=200), st.text(max_size=60).map(lambda t: t.encode('utf-8', 'ignore')),
                        st.sampled_from([8383, 8384, 65536] if big else [300]).flatmap(lambda n: st.binary(min_size=n, max_size=n))).map(lambda b: b.hex())
    content = st.one_of(content, content, content, st.sampled_from(['repeat:12000:2', 'repeat:30000:2', 'repeat:8200:3', 'repeat:33000:2']))
    fname = st.sampled_from([None, None, 'plain.txt', 'ünïcödé.txt', '日本.bin', 'x' * 200, 'sp ace.txt', 'n' * 85 + '.dat',
                             # exactly 255 octets of UTF-8: ending in a three-octet, a two-octet and a one-octet character; and 254
                             'a' * 252 + '日', 'b' * 253 + 'é', 'é' * 127 + 'c', 'd' * 251 + '日'])
    return st.fixed_dictionaries({
        'dir': st.sampled_from(['own', 'own', 'foreign']),
        'content': content,
        'ctype': st.sampled_from(['bytes', 'str']),
        'fmt': st.sampled_from([None, 'b', 't', 'u']),
        'encoding': st.sampled_from([None, None, 'latin-1', 'utf-8']),
        'fname': fname,
        'mtime': st.sampled_from([0, 1, 1234567890, 1 << 31, (1 << 32) - 1]),
        'sensitive': st.booleans(),
        'comp': st.sampled_from([0, 1, 2, 3]),
        'signers': st.lists(st.tuples(st.sampled_from(SIGNERS), st.sampled_from([0, 0, 1, 5])), max_size=4, unique_by=lambda x: x[0]),
        'transport': st.sampled_from(['bin', 'asc']),
        'hdr': st.sampled_from(['new', 'old', 'partial', 'new5', 'indeterminate']),
    })


def snapshot(msg):
    m = msg.message
    return {'message': ['b', bytes(m).hex()] if isinstance(m, (bytes, bytearray)) else ['s', m], 'filename': msg.filename,
            'mtime': calendar.timegm(msg._message.mtime.utctimetuple()), 'format': msg._message.format, 'comp': int(msg._compression),
            'sigs': sorted(bytes(s.__bytearray__()).hex() for s in msg.signatures), 'sensitive': msg.is_sensitive}


def eval_own(c, rec):
    import pgpy
    from pgpy.constants import CompressionAlgorithm
    raw = content_octets(c['content'])
    fmt = c['fmt']
    enc = c['encoding']
    text = None
    arg = raw
    if c['ctype'] == 'str' or fmt in ('t', 'u'):
        # textual input: must be decodable under the hint (or UTF-8)
        try:
            text = raw.decode(enc or 'utf-8')
        except UnicodeDecodeError:
            fmt = 'b' if fmt in ('t', 'u') else fmt
            text = None
    if c['ctype'] == 'str' and text is not None:
        arg = text
    if fmt is None and text is None and content_class(raw) == 'ascii':
        text = raw.decode('ascii')
    cls = content_class(raw)
    tmpd = None
    kw = dict(compression=CompressionAlgorithm(c['comp']))
    if fmt:
        kw['format'] = fmt
    if enc:
        kw['encoding'] = enc
    if c['sensitive']:
        kw['sensitive'] = True
    fname = c['fname']
    key = ('own', len(c['signers']), c['comp'], fmt, cls, c['ctype'], bool(fname), enc, c['transport'])
    nontriv = len(c['signers']) >= 2 or (c['comp'] and c['signers']) or cls in ('utf8', 'binary') or (fname is not None and not fname.isascii())
    rec.case(key, bool(nontriv), ('dir/own', 'nsigners/%d' % len(c['signers']), 'comp/%d' % c['comp'], 'fmt/%s' % fmt, 'content/' + cls,
                                   'file/%s' % ('none' if not fname else 'ascii' if fname.isascii() else 'non-ascii')),
             {'dir': 'own', 'content_len': len(raw), 'content_class': cls, 'ctype': c['ctype'], 'fmt': fmt, 'encoding': enc, 'file': fname, 'comp': c['comp'],
              'signers': c['signers'], 'transport': c['transport']})
    try:
        if fname is not None:
            tmpd = tempfile.mkdtemp(prefix='vc20')
            path = os.path.join(tmpd, fname)
            with open(path, 'wb') as f:
                f.write(raw)
            os.utime(path, (c['mtime'], c['mtime']))
            msg = pgpy.PGPMessage.new(path, file=True, **kw)
        else:
            msg = pgpy.PGPMessage.new(arg, **kw)
        for kid, dt in c['signers']:
            signer = keypool.pgpy_key(keypool.ref_cert(kid, secret=True))
            msg |= signer.sign(msg, created=datetime.datetime.fromtimestamp(1600000000 + dt, datetime.timezone.utc))
            # the message is exported after every added signature (a history, not only the final state):
            # each intermediate export must itself be a derivable message with correctly paired one-pass packets
            try:
                im = grammar.parse_message(bytes(msg))
                for pp in grammar.check_onepass(im):
                    rec.finding('grammar', 'intermediate-export/' + ('onepass-last-flag' if 'last-flag' in pp else 'onepass-pairing'), c, pp)
            except wire.WireError as e:
                rec.finding('grammar', 'intermediate-export/not-derivable', c, str(e))
        before = snapshot(msg)
        blob = bytes(msg)
        transport = str(msg) if c['transport'] == 'asc' else blob
    except Exception as e:   # noqa
        rec.finding('build', 'exception/' + harness.exc_key(e), c, repr(e))
        return
    finally:
        if tmpd:
            shutil.rmtree(tmpd, ignore_errors=True)
    # ---- metadata as given
    if fname is not None:
        want_name = '_CONSOLE' if c['sensitive'] else fname
        if before['filename'] != want_name:
            rec.finding('metadata', 'filename-as-built', c, '%r != %r' % (before['filename'], want_name))
        if before['mtime'] != c['mtime']:
            rec.finding('metadata', 'mtime-as-built', c, '%r != %r' % (before['mtime'], c['mtime']))
    if c['sensitive'] and not before['sensitive']:
        rec.finding('metadata', 'sensitive-flag', c, before['filename'])
    # ---- grammar
    try:
        pm = grammar.parse_message(blob)
    except wire.WireError as e:
        rec.finding('grammar', 'not-derivable', c, str(e))
        return
    if pm.kind != 'literal':
        rec.finding('grammar', 'kind', c, pm.kind)
        return
    for p in grammar.check_onepass(pm):
        rec.finding('grammar', 'onepass-last-flag' if 'last-flag' in p else 'onepass-pairing', c, p)
    if len(pm.sigs) != len(c['signers']) or pm.prefix_sigs:
        rec.finding('grammar', 'signature-count', c, '%d signature packets for %d signers' % (len(pm.sigs), len(c['signers'])))
    if pm.compression != c['comp'] or bool(getattr(pm, 'outer_compressed', False)) != bool(c['comp']):
        rec.finding('grammar', 'compression-scope', c, 'compression %r outer %r' % (pm.compression, getattr(pm, 'outer_compressed', False)))
    # ---- octet-exact content
    if fname is not None:
        want_body = raw if before['format'] == 'b' else None
    elif isinstance(arg, str) or (text is not None and fmt in ('t', 'u', None)):
        # "octet-for-octet under the message's character encoding": the marker 'u' means UTF-8, text under 't' is in the charset of the hint
        want_body = text.encode('utf-8' if before['format'] == 'u' else (enc or 'utf-8'))
    else:
        want_body = raw
    if before['format'] == 'b' and not isinstance(arg, str):
        want_body = raw
    if want_body is not None and pm.literal.data != want_body:
        rec.finding('content', 'literal-body-octets', c, 'literal body %r..., expected %r...' % (pm.literal.data[:30], want_body[:30]))
    if chr(pm.literal.format) != before['format'] or pm.literal.time != before['mtime'] or pm.literal.filename.decode('utf-8', 'replace') != before['filename']:
        rec.finding('metadata', 'literal-header-vs-object', c, 'format %r time %r filename %r' % (chr(pm.literal.format), pm.literal.time, pm.literal.filename))
    if before['format'] in ('u', 't') and text is not None and fname is None and before['message'] != ['s', text]:
        rec.finding('content', 'message-text-as-built', c, '%r != %r' % (before['message'][1][:40], text[:40]))
    # ---- reference verifies every signature over the literal body
    for p in pm.sigs:
        if before['format'] == 't' and cls not in ('ascii', 'empty'):
            rec.note('skipped/format-t-non-ascii-signature (owned by C02)')
            break
        s = rsig.parse_sig_body(p.body)
        iss = rsig.issuer_keyid(s)
        pk = [keypool.ref_public(k) for k, _ in c['signers'] if keypool.ref_public(k).keyid == iss]
        if not pk or not rsig.verify(s, ('doc', pm.literal.data), pk[0])[0]:
            cause = 'signature-over-literal-body'
            if before['format'] == 't' and cls != 'ascii':
                cause = 'format-t-non-ascii-signed-octets'
            rec.finding('signatures', cause, c, 'issuer %s' % (iss.hex() if iss else None))
    # ---- import
    try:
        back = pgpy.PGPMessage.from_blob(transport)
        after = snapshot(back)
    except Exception as e:   # noqa
        cause = 'exception/' + harness.exc_key(e)
        rec.finding('import', cause, c, repr(e))
        return
    for f in ('message', 'filename', 'mtime', 'format', 'comp', 'sigs', 'sensitive'):
        if f == 'message' and before['format'] == 't' and enc not in (None, 'utf-8') and c['transport'] == 'bin':
            # the binary form carries no Charset hint: what can be compared is the octets (the re-export below), not their reading as text
            rec.note('text-of-other-charset-over-binary-transport/compared-as-octets')
            continue
        if before[f] != after[f]:
            rec.finding('import', f, c, '%s: %r -> %r' % (f, str(before[f])[:80], str(after[f])[:80]))
    if bytes(back) != blob:
        rec.finding('import', 're-export-differs', c, 'export of the imported message differs')
    for kid, dt in c['signers']:
        try:
            ok = bool(keypool.pgpy_key(keypool.ref_cert(kid, secret=False)).verify(back))
        except Exception as e:   # noqa
            ok = False
        if not ok:
            rec.finding('import', 'signature-no-longer-verifies', c, kid)


def eval_foreign(c, rec):
    import pgpy
    raw = content_octets(c['content'])
    fmt = {'b': 0x62, 't': 0x74, 'u': 0x75, None: 0x62}[c['fmt']]
    cls = content_class(raw)
    if fmt != 0x62 and cls == 'binary':
        fmt = 0x62
    if fmt == 0x74 and cls != 'ascii' and cls != 'empty':
        fmt = 0x75
    fname = (c['fname'] or '').encode('utf-8')[:255]
    try:
        fname.decode('utf-8')
    except UnicodeDecodeError:
        fname = fname[:-1].decode('utf-8', 'ignore').encode('utf-8')
    lit = grammar.build_literal(fmt, fname, c['mtime'], raw)
    hdr = c['hdr']
    if hdr == 'old':
        lp = wire.build_packet(11, lit, 'old')
    elif hdr == 'new5':
        lp = wire.build_packet(11, lit, 'new', 5)
    elif hdr == 'partial' and len(lit) > 520:
        lp = wire.build_packet(11, lit, 'new', chunks=[512, len(lit) - 512])
    elif hdr == 'partial' and len(lit) > 20:
        lp = wire.build_packet(11, lit, 'new', chunks=[16, len(lit) - 16])
    else:
        lp = wire.build_packet(11, lit)
    sigs, ops, anonymous = [], [], []
    n = len(c['signers'])
    for i, (kid, dt) in enumerate(c['signers']):
        sec = keypool.ref_secret(kid)
        hashed = keypool.std_hashed(1600000000 + dt, sec.pub.fingerprint)
        unh, opid = keypool.sp(16, sec.pub.keyid), sec.pub.keyid
        if dt == 5 and i == 0:
            # RFC 4880 requires no issuer subpacket at all: the one-pass packet then carries the wildcard key id
            hashed, unh, opid = keypool.sp(2, wire.u32(1600000005)), b'', bytes(8)
            anonymous.append(kid)
        elif dt == 1:
            unh = b''           # issuer named by the (hashed) fingerprint subpacket only
        body = rsig.sign(sec, 0x00, 8, ('doc', raw), hashed, unh)
        sigs.append(wire.build_packet(2, body, 'old' if hdr == 'old' else 'new'))
        ops.append(bytes([3, 0, 8, sec.pub.alg]) + opid)
    if n and c['mtime'] % 5 == 2:
        # a co-signer whose key is of a public-key algorithm PGPy has a name but no signature structure for (20, the old ElGamal
        # sign-and-encrypt; 21): the packet is somebody else's business and must not make the message, or the other signatures, unusable
        alg = [20, 21][c['mtime'] % 2]
        hashed = keypool.sp(2, wire.u32(1600000007))
        body = bytes([4, 0x00, alg, 8]) + len(hashed).to_bytes(2, 'big') + hashed + (10).to_bytes(2, 'big') + keypool.sp(16, bytes(range(0xB0, 0xB8))) + b'\x12\x34' \
            + wire.mpi_encode((1 << 1020) + 77) + wire.mpi_encode((1 << 1019) + 99)
        sigs.append(wire.build_packet(2, body, 'old' if hdr == 'old' else 'new'))
        ops.append(bytes([3, 0, 8, alg]) + bytes(range(0xB0, 0xB8)))
        n += 1
        rec.note('foreign/co-signer-of-unimplemented-algorithm')
    # one-pass i pairs with signature n-1-i
    seq = b''.join(wire.build_packet(4, ops[n - 1 - i] + bytes([1 if i == n - 1 else 0])) for i in range(n)) + lp + b''.join(sigs)
    if hdr == 'indeterminate' and not c['comp'] and not n:
        seq = wire.build_packet(11, lit, 'old', 3)
    blob = seq
    if c['comp']:
        inner = bytes([c['comp']]) + grammar.compress(c['comp'], seq)
        blob = wire.build_packet(8, inner, 'old', 3) if hdr == 'indeterminate' else wire.build_packet(8, inner)
    transport = armor.write_block('MESSAGE', blob, eol='\r\n' if c['mtime'] % 2 else '\n') if c['transport'] == 'asc' else blob
    key = ('foreign', n, c['comp'], fmt, cls, hdr, c['transport'])
    rec.case(key, True, ('dir/foreign', 'nsigners/%d' % n, 'comp/%d' % c['comp'], 'hdr/' + hdr, 'content/' + cls),
             {'dir': 'foreign', 'content_len': len(raw), 'content_class': cls, 'format': chr(fmt), 'header': hdr, 'comp': c['comp'], 'signers': c['signers']})
    try:
        m = pgpy.PGPMessage.from_blob(transport)
        got = m.message
        gotb = bytes(got) if isinstance(got, (bytes, bytearray)) else got.encode('latin-1' if fmt == 0x74 else 'utf-8')
    except Exception as e:   # noqa
        rec.finding('foreign-import', 'exception/%s/%s' % (hdr, harness.exc_key(e)), c, repr(e))
        return
    if gotb != raw:
        rec.finding('foreign-import', 'content/comp%d' % c['comp'], c, '%r != %r' % (gotb[:40], raw[:40]))
    if m.filename != fname.decode('utf-8') or calendar.timegm(m._message.mtime.utctimetuple()) != c['mtime'] or m._message.format != chr(fmt) or int(m._compression) != c['comp']:
        rec.finding('foreign-import', 'metadata', c, 'filename %r mtime %r format %r comp %r' % (m.filename, m._message.mtime, m._message.format, m._compression))
    if len(m.signatures) != n:
        rec.finding('foreign-import', 'signature-count', c, '%d != %d' % (len(m.signatures), n))
    for kid, dt in c['signers']:
        if kid in anonymous:
            continue        # nothing tells PGPy which key to try
        try:
            ok = bool(keypool.pgpy_key(keypool.ref_cert(kid, secret=False)).verify(m))
        except Exception as e:   # noqa
            ok = False
        if not ok:
            rec.finding('foreign-import', 'signature-does-not-verify', c, kid)
    # what PGPy re-exports must again be a derivable message with the same body
    try:
        pm = grammar.parse_message(bytes(m))
        if pm.literal.data != raw or grammar.check_onepass(pm):
            rec.finding('foreign-import', 're-export', c, 'body or one-pass structure changed: %r' % grammar.check_onepass(pm))
    except wire.WireError as e:
        rec.finding('foreign-import', 're-export-not-derivable', c, str(e))


def evaluate(c, rec):
    (eval_own if c['dir'] == 'own' else eval_foreign)(c, rec)


def shard(arg):
    seed, idx, n, big, bsec = arg
    rec = harness.Rec()
    harness.run_given(case_strategy(big), lambda c: evaluate(c, rec), harness.derive_seed('C20', seed, idx), n, harness.Budget(bsec), rec)
    return rec


def matrix(arg):
    part, nparts = arg
    rec = harness.Rec()
    i = 0
    for nsig in range(0, 5):
        for comp in range(4):
            for d in ('own', 'foreign'):
                for fmt in (None, 'b', 'u'):
                    i += 1
                    if i % nparts != part:
                        continue
                    c = {'dir': d, 'content': CONTENTS[i % len(CONTENTS)].hex(), 'ctype': ['bytes', 'str'][i % 2], 'fmt': fmt, 'encoding': None,
                         'fname': [None, 'plain.txt', 'ünï.txt', 'a' * 252 + '日', 'b' * 253 + 'é'][i % 5], 'mtime': 1234567890 + i, 'sensitive': False, 'comp': comp,
                         'signers': [(SIGNERS[(i + k) % len(SIGNERS)], [0, 0, 3][k % 3]) for k in range(nsig)], 'transport': ['bin', 'asc'][i % 2],
                         'hdr': ['new', 'old', 'partial', 'new5', 'indeterminate'][i % 5]}
                    evaluate(c, rec)
    # long-range repeats (matches at distances up to the full 32 KiB DEFLATE window) under every compression, both directions
    for j, spec in enumerate(['repeat:12000:2', 'repeat:30000:2', 'repeat:8200:3']):
        for comp in (1, 2, 3):
            for d in ('own', 'foreign'):
                i += 1
                if i % nparts != part:
                    continue
                evaluate({'dir': d, 'content': spec, 'ctype': 'bytes', 'fmt': 'b', 'encoding': None, 'fname': None, 'mtime': 1234567890, 'sensitive': False, 'comp': comp,
                          'signers': [(SIGNERS[0], 0)] if j == 0 else [], 'transport': ['bin', 'asc'][i % 2], 'hdr': ['new', 'partial', 'indeterminate', 'old'][i % 4]}, rec)
    return rec


def run(tier, seed):
    tasks = [('matrix', (p, 4)) for p in range(4)]
    n, bsec = (350, 60) if tier == 'quick' else (4000, 900)
    for i in range(12 if tier == 'quick' else 28):
        tasks.append(('shard', (seed, i, n, tier != 'quick', bsec)))
    return harness.pmap('vpgpy.props.c20', 'dispatch', tasks)


def dispatch(task):
    return globals()[task[0]](task[1])


def replay(case):
    rec = harness.Rec()
    case = dict(case)
    case['signers'] = [tuple(x) for x in case['signers']]
    evaluate(case, rec)
    return [(f['clause'], f['cause'], f['detail']) for f in rec.findings]
