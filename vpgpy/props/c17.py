"""C17 -- verification verdicts are coherent: disqualifying conditions always disqualify.

(a) exhaustive algebra over all 2^11 SecurityIssues values; (b) scenarios through PGPKey.verify with keys,
certificates and signatures made by the reference signer (strong/weak key of each family x expired or not x
revoked or not x hash x subject kind x which signature is wrong), compared with a small model:
truthy  <=>  the verifying key is not expired  and  every examined signature is cryptographically correct."""
import itertools

from .. import harness, keypool
from ..refpgp import wire, keys as rkeys, sig as rsig, grammar

RULE = ('(a) all 2048 SecurityIssues flag combinations: causes_signature_verify_to_fail <=> intersection with {WrongSig, Expired, Disabled, '
        'Invalid, NoSelfSignature} non-empty, monotone under adding flags; a SignatureVerification holding every value is truthy iff no entry '
        'fails and good/bad partition the entries. (b) full product: 6 keys (RSA 1024/2048, DSA 1024/2048, ECDSA P-256, Ed25519 = weak/strong '
        'per family) x expired/valid x revoked/not; histories on one key object (verify, merge a newer self-signature that flips the expiry state, verify again, compare with a fresh load); x 3 hashes (SHA-256, SHA-1, MD5) x 5 subject kinds (detached document, own user id, third-'
        'party user id, whole own key = several signatures, message) x {all correct, each single signature wrong}. Non-trivial: scenario with an '
        'expired key or a wrong signature or >= 2 signatures; distinct by the scenario tuple. The domain is finite and enumerated completely.')
RULE += ' Further subjects: a document signed by the signing subkey of the (expired) certificate; later attestations by the key on its user ids; a key expiration time of zero (= never); wrong signatures also with out-of-range integers.'
RULE += ' Expiry sources: the most recent self-signature of the primary identity where an older self-signature of another identity says otherwise; the binding signature of the signing subkey; a direct-key self-signature where the self-certifications are silent.'
RULE += ' Further: a validity period stated only in the unhashed area or removed by unhashed subpackets; a later forged self-certification with rubbish integers; a document signed by a key that sits in the certificate as a subkey packet without binding signature.'
ASSUMPTIONS = ['disqualifying conditions reachable today: expiry and the absence of a valid self-signature (there is no "disabled" flag source)', 'keys and signatures are made by refpgp so that '
               'only PGPy\'s verification side is exercised']

KEYS = [('rsa1024-0', 'RSA', 'weak'), ('rsa2048-2', 'RSA', 'strong'), ('dsa1024-0', 'DSA', 'weak'), ('dsa2048-1', 'DSA', 'strong'),
        ('ecdsa-p256-0', 'EC', 'weak'), ('ed25519-0', 'EC', 'strong')]
HASHES = [8, 2, 1]
SUBJECTS = ['doc', 'self-uid', 'third-uid', 'whole-key', 'message', 'doc-by-subkey', 'doc-noise', 'doc-zero-expiry', 'doc-old-long', 'doc-by-expired-subkey', 'doc-direct-expiry', 'doc-unhashed-noise', 'doc-forged-selfsig', 'doc-by-unbound-subkey', 'doc-by-subkey-of-unvouched-primary', 'doc-forged-uid-revocation']


def w_algebra(arg):
    from pgpy.constants import SecurityIssues
    from pgpy.types import SignatureVerification
    rec = harness.Rec()
    D = SecurityIssues.WrongSig | SecurityIssues.Expired | SecurityIssues.Disabled | SecurityIssues.Invalid | SecurityIssues.NoSelfSignature
    vals = list(range(1 << 11))
    for v in vals:
        si = SecurityIssues(v)
        want = bool(v & int(D))
        got = bool(si.causes_signature_verify_to_fail)
        rec.case(('alg', v), bin(v).count('1') >= 2, ('algebra/%s' % ('fails' if want else 'passes'),), {'issues': str(si), 'must_fail': want})
        if got != want:
            rec.finding('algebra', 'disqualifier-masked-by-advisory-flag' if want else 'advisory-flag-disqualifies', {'kind': 'alg', 'v': v}, '%s -> %r' % (si, got))
        # monotone: adding any flag never turns failing into passing
        for b in range(11):
            w = v | (1 << b)
            if got and not SecurityIssues(w).causes_signature_verify_to_fail:
                rec.finding('algebra', 'not-monotone', {'kind': 'alg', 'v': v, 'add': b}, '%s fails but %s passes' % (si, SecurityIssues(w)))
    # the result object: every entry exactly once in good or bad; truthy iff no bad entry
    for chunk in range(0, len(vals), 64):
        sv = SignatureVerification()
        part = vals[chunk:chunk + 64]
        for v in part:
            sv.add_sigsubj('sig%d' % v, 'key', 'subj', SecurityIssues(v))
        good = list(sv.good_signatures)
        bad = list(sv.bad_signatures)
        wantbad = [v for v in part if v & int(D)]
        rec.case(('sv', chunk), True, ('result-object',), {'entries': len(part), 'bad': len(wantbad)})
        if sorted(x.signature for x in bad) != sorted('sig%d' % v for v in wantbad) or len(good) + len(bad) != len(part) \
                or set(x.signature for x in good) & set(x.signature for x in bad):
            rec.finding('coherence', 'good-bad-partition', {'kind': 'sv', 'chunk': chunk}, 'good %d bad %d of %d' % (len(good), len(bad), len(part)))
        if bool(sv) != (not wantbad):
            rec.finding('coherence', 'truthiness', {'kind': 'sv', 'chunk': chunk}, 'bool %r with %d bad' % (bool(sv), len(wantbad)))
        for v in part:
            one = SignatureVerification()
            one.add_sigsubj('s', 'k', 'x', SecurityIssues(v))
            if bool(one) != (not (v & int(D))):
                rec.finding('coherence', 'truthiness-single', {'kind': 'sv1', 'v': v}, str(SecurityIssues(v)))
    rec.exhaustive['all 2^11 SecurityIssues values'] = True
    return rec


def build_cert(kid, expired, revoked, halg, secret=False, noise=False):
    """certificate by the reference signer; expired: key expiration one day after a creation time in 2017;
    noise: later signatures by the key itself on its user ids that are NOT self-certifications (an attestation 0x16 each), which carry no expiry"""
    extra = keypool.sp(9, wire.u32(86400)) if expired else b''
    if noise == 'zero':
        # RFC 4880 5.2.3.6: a key expiration time of zero (or none) means the key never expires
        extra = keypool.sp(9, wire.u32(0))
        noise = False
    blob = keypool.ref_cert(kid, uids=('Verdict Key <verdict@example.org>', 'Second <second@example.org>'), subkeys=(('cv25519-0', 0x0C), ('ed25519-1', 0x02)),
                            secret=secret, halg=halg, uid_extra=extra)
    if noise == 'unvouched':
        # every self-certification of the primary key carries rubbish integers (none verifies); the subkey bindings are genuine
        out = b''
        pk = wire.split_packets(blob)
        for i, p in enumerate(pk):
            out += wire.build_packet(2, corrupt(p.body)) if p.tag == 2 and i > 0 and pk[i - 1].tag == 13 else p.raw
        return out
    if noise == 'forged-rev':
        # a certification revocation on the first user id (the one that states the validity period) that merely NAMES the key as issuer:
        # rubbish integers, made by nobody; the second user id is then certified without any validity period
        psec = keypool.ref_secret(kid)
        pk = wire.split_packets(keypool.ref_cert(kid, uids=('Verdict Key <verdict@example.org>',), subkeys=(('cv25519-0', 0x0C), ('ed25519-1', 0x02)),
                                                 secret=secret, halg=halg, uid_extra=keypool.sp(9, wire.u32(86400)) + keypool.sp(25, b'\x01')))
        rev = rsig.sign(psec, 0x30, halg, ('cert', psec.pub, 'uid', pk[1].body), keypool.std_hashed(psec.pub.created + 9000, psec.pub.fingerprint, keypool.sp(29, b'\x20')),
                        keypool.sp(16, psec.pub.keyid))
        second = b'Second <second@example.org>'
        cert2 = rsig.sign(psec, 0x13, halg, ('cert', psec.pub, 'uid', second), keypool.std_hashed(psec.pub.created + 50, psec.pub.fingerprint, keypool.sp(27, b'\x03')),
                          keypool.sp(16, psec.pub.keyid))
        return pk[0].raw + pk[1].raw + pk[2].raw + wire.build_packet(2, corrupt(rev)) + wire.build_packet(13, second) + wire.build_packet(2, cert2) + b''.join(p.raw for p in pk[3:])
    if noise == 'unbound':
        # somebody else's key material relabelled as a public subkey packet and appended, without any binding signature
        return blob + wire.build_packet(14, keypool.ref_public('ed25519-2').body)
    if noise == 'forged':
        # a later "self-certification" without validity period that merely NAMES the key as issuer: its signature integers are rubbish
        psec = keypool.ref_secret(kid)
        pk = wire.split_packets(blob)
        out = b''
        for i, p in enumerate(pk):
            out += p.raw
            if p.tag == 2 and i > 0 and pk[i - 1].tag == 13:
                good = rsig.sign(psec, 0x13, halg, ('cert', psec.pub, 'uid', pk[i - 1].body),
                                 keypool.std_hashed(psec.pub.created + 9000, psec.pub.fingerprint, keypool.sp(27, b'\x03')), keypool.sp(16, psec.pub.keyid))
                out += wire.build_packet(2, corrupt(good))
        return out
    if noise == 'unhashed':
        # anybody can add subpackets to the unhashed area, which the signature does not cover: a signature expiration time of one second and a
        # key expiration time of zero placed there say nothing about the self-signatures or the key
        # (the validity period is stated in a direct-key self-signature or, for every other key, in the self-certifications)
        out = b''
        if int.from_bytes(keypool.ref_public(kid).fingerprint[-1:], 'big') % 2 or halg == 8:
            blob = build_cert(kid, expired, revoked, halg, secret, noise='direct')
        direct_only = any(p.tag == 2 and p.body[1] == 0x1F for p in wire.split_packets(blob))
        for p in wire.split_packets(blob):
            # (where a direct-key signature states the validity period only that one is touched: the self-certifications stay in force, so that
            # what is observed is the validity period and not the absence of any valid self-signature)
            if p.tag == 2 and (p.body[1] == 0x1F or not direct_only):
                t = rsig.parse_sig_body(p.body)
                unh = keypool.sp(3, wire.u32(1)) + keypool.sp(9, wire.u32(0)) + t.unhashed_area
                out += wire.build_packet(2, t.hashed_prefix + len(unh).to_bytes(2, 'big') + unh + p.body[t.left16_off:])
            else:
                out += p.raw
        return out
    if noise == 'direct':
        # the key states its validity period (one day) in a direct-key self-signature (RFC 4880 5.2.3.3: the place for information about
        # the key itself; what key.certify(key, key_expiration=...) writes); the self-certifications of the user ids say nothing about expiry
        psec = keypool.ref_secret(kid)
        pk = wire.split_packets(keypool.ref_cert(kid, uids=('Verdict Key <verdict@example.org>', 'Second <second@example.org>'),
                                                 subkeys=(('cv25519-0', 0x0C), ('ed25519-1', 0x02)), secret=secret, halg=halg))
        direct = rsig.sign(psec, 0x1F, halg, ('key', psec.pub), keypool.std_hashed(psec.pub.created + 50, psec.pub.fingerprint, keypool.sp(9, wire.u32(86400)) + keypool.sp(27, b'\x03')),
                           keypool.sp(16, psec.pub.keyid))
        return pk[0].raw + wire.build_packet(2, direct) + b''.join(p.raw for p in pk[1:])
    if noise in ('old-long', 'sub-expired'):
        # 'old-long': the first user id's (newer) self-signature limits the key to one day, an OLDER self-signature on the second user id said 100 years;
        # 'sub-expired': the key itself never expires, the binding signature of the signing subkey limits that subkey to one day
        psec = keypool.ref_secret(kid)
        ppub = psec.pub
        pk = wire.split_packets(keypool.ref_cert(kid, uids=('Verdict Key <verdict@example.org>', 'Second <second@example.org>'),
                                                 subkeys=(('cv25519-0', 0x0C), ('ed25519-1', 0x02)), secret=secret, halg=halg))
        out = b''
        nuid = 0
        for i, p in enumerate(pk):
            if p.tag == 2 and pk[i - 1].tag == 13 and noise == 'old-long':
                nuid += 1
                extra = keypool.sp(27, b'\x03') + (keypool.sp(9, wire.u32(86400)) + keypool.sp(25, b'\x01') if nuid == 1 else keypool.sp(9, wire.u32(86400 * 36500)))
                t = ppub.created + (100 if nuid == 1 else 10)
                out += wire.build_packet(2, rsig.sign(psec, 0x13, halg, ('cert', ppub, 'uid', pk[i - 1].body), keypool.std_hashed(t, ppub.fingerprint, extra), keypool.sp(16, ppub.keyid)))
            elif p.tag == 2 and pk[i - 1].tag in (7, 14) and noise == 'sub-expired' and rkeys.parse_public_body(pk[i - 1].body)[0].alg == 22:
                ssec = keypool.ref_secret('ed25519-1')
                eb = rsig.sign(ssec, 0x19, halg, ('subkey', ppub, ssec.pub), keypool.std_hashed(ppub.created + 100, ssec.pub.fingerprint), keypool.sp(16, ssec.pub.keyid))
                out += wire.build_packet(2, rsig.sign(psec, 0x18, halg, ('subkey', ppub, ssec.pub),
                                                      keypool.std_hashed(ppub.created + 100, ppub.fingerprint, keypool.sp(27, b'\x02') + keypool.sp(9, wire.u32(86400))),
                                                      keypool.sp(16, ppub.keyid) + keypool.sp(32, eb)))
            else:
                out += p.raw
        return out
    if noise:
        psec = keypool.ref_secret(kid)
        pk = wire.split_packets(blob)
        out = b''
        for i, p in enumerate(pk):
            out += p.raw
            if p.tag == 2 and i > 0 and pk[i - 1].tag == 13:
                att = rsig.sign(psec, 0x16, halg, ('cert', psec.pub, 'uid', pk[i - 1].body),
                                keypool.std_hashed(psec.pub.created + 5000, psec.pub.fingerprint, keypool.sp(37, b'')), keypool.sp(16, psec.pub.keyid))
                out += wire.build_packet(2, att)
        blob = out
    if revoked:
        psec = keypool.ref_secret(kid)
        body = rsig.sign(psec, 0x20, halg, ('key', psec.pub), keypool.std_hashed(psec.pub.created + 200, psec.pub.fingerprint, keypool.sp(29, b'\x00')),
                         keypool.sp(16, psec.pub.keyid))
        pk = wire.split_packets(blob)
        blob = pk[0].raw + wire.build_packet(2, body) + b''.join(p.raw for p in pk[1:])
    return blob


def corrupt(sigbody):
    """a cryptographically wrong signature: either one bit of the last integer flipped, or (every other signature, by its left-16 field) the integer
    raised by 2^(8*octets) -- out of range for every algorithm, although its low octets are the genuine value"""
    s = rsig.parse_sig_body(sigbody)
    m = list(s.mpis)
    if s.left16[0] % 2:
        m[-1] += 1 << (8 * ((m[-1].bit_length() + 7) // 8))
    else:
        m[-1] ^= 2
    return rsig.build_sig_body(s.sigtype, s.pkalg, s.halg, s.hashed_area, s.unhashed_area, s.left16, m)


def scenario(rec, kid, fam, strength, expired, revoked, halg, subject, wrong):
    import pgpy
    case = {'kind': 'scn', 'kid': kid, 'expired': expired, 'revoked': revoked, 'halg': halg, 'subject': subject, 'wrong': wrong}
    psec = keypool.ref_secret(kid)
    ppub = psec.pub
    cert = build_cert(kid, expired, revoked, halg, noise=(subject == 'doc-noise') or {'doc-zero-expiry': 'zero', 'doc-old-long': 'old-long', 'doc-by-expired-subkey': 'sub-expired', 'doc-direct-expiry': 'direct', 'doc-unhashed-noise': 'unhashed', 'doc-forged-selfsig': 'forged', 'doc-by-unbound-subkey': 'unbound', 'doc-by-subkey-of-unvouched-primary': 'unvouched',
                                                                                                    'doc-forged-uid-revocation': 'forged-rev'}.get(subject, False))
    if subject == 'doc-zero-expiry':
        expired = False
    disqualified = False
    if subject == 'doc-by-subkey-of-unvouched-primary':
        # the binding signature of the signing subkey is genuine, but no self-signature vouches for the primary key that made it
        disqualified = True
    if subject == 'doc-by-unbound-subkey':
        # "no valid self-signature": the component the signature names sits in the certificate without any binding signature
        disqualified = True
    if subject in ('doc-old-long', 'doc-by-expired-subkey', 'doc-direct-expiry', 'doc-unhashed-noise', 'doc-forged-selfsig', 'doc-forged-uid-revocation'):
        if revoked or not expired:
            return          # one scenario per key and hash is enough: the certificate is built expired by construction
        expired = True
    n_sigs = 1
    try:
        ver = keypool.pgpy_key(cert)
        if subject == 'doc-by-unbound-subkey':
            fsec = keypool.ref_secret('ed25519-2')
            body = rsig.sign(fsec, 0x00, halg, ('doc', b'verdict coherence'), keypool.std_hashed(1600000000, fsec.pub.fingerprint), keypool.sp(16, fsec.pub.keyid))
            if wrong == 0:
                body = corrupt(body)
            res = ver.verify(b'verdict coherence', pgpy.PGPSignature.from_blob(wire.build_packet(2, body)))
        elif subject in ('doc-by-subkey', 'doc-by-expired-subkey', 'doc-by-subkey-of-unvouched-primary'):
            # the document is signed by the signing subkey of the certificate; the verdict is asked of the (possibly expired) primary
            ssec = keypool.ref_secret('ed25519-1')
            body = rsig.sign(ssec, 0x00, halg, ('doc', b'verdict coherence'), keypool.std_hashed(1600000000, ssec.pub.fingerprint), keypool.sp(16, ssec.pub.keyid))
            if wrong == 0:
                body = corrupt(body)
            res = ver.verify(b'verdict coherence', pgpy.PGPSignature.from_blob(wire.build_packet(2, body)))
        elif subject in ('doc', 'doc-noise', 'doc-zero-expiry', 'doc-old-long', 'doc-direct-expiry', 'doc-unhashed-noise', 'doc-forged-selfsig', 'doc-forged-uid-revocation'):
            body = rsig.sign(psec, 0x00, halg, ('doc', b'verdict coherence'), keypool.std_hashed(1600000000, ppub.fingerprint), keypool.sp(16, ppub.keyid))
            if wrong == 0:
                body = corrupt(body)
            res = ver.verify(b'verdict coherence', pgpy.PGPSignature.from_blob(wire.build_packet(2, body)))
        elif subject == 'self-uid':
            k2 = keypool.pgpy_key(cert)
            uid = k2.userids[0]
            sig = uid.selfsig
            if wrong == 0:
                sig = pgpy.PGPSignature.from_blob(wire.build_packet(2, corrupt(wire.split_packets(bytes(sig))[0].body)))
            res = ver.verify(uid, sig)
        elif subject == 'third-uid':
            tgt = keypool.ref_cert('ed25519-2', uids=('Target <t@example.org>',), secret=False)
            tp = wire.split_packets(tgt)
            tpub = rkeys.parse_public_body(tp[0].body)[0]
            body = rsig.sign(psec, 0x10, halg, ('cert', tpub, 'uid', tp[1].body), keypool.std_hashed(1600000000, ppub.fingerprint), keypool.sp(16, ppub.keyid))
            if wrong == 0:
                body = corrupt(body)
            tk = keypool.pgpy_key(tgt)
            res = ver.verify(tk.userids[0], pgpy.PGPSignature.from_blob(wire.build_packet(2, body)))
        elif subject == 'whole-key':
            # verify(own key): user-id self-signatures, the subkey binding and (if revoked) the revocation
            pk = wire.split_packets(cert)
            sig_idx = [i for i, p in enumerate(pk) if p.tag == 2]
            # examined: every signature packet plus the cross-signature embedded in the binding of the signing subkey
            n_sigs = len(sig_idx) + sum(1 for i in sig_idx for x in rsig.parse_sig_body(pk[i].body).unhashed if x.type == 32)
            if wrong is not None:
                if wrong >= n_sigs:
                    return
                i = sig_idx[wrong]
                pk[i] = wire.read_packet(wire.build_packet(2, corrupt(pk[i].body)))
            blob = b''.join(p.raw for p in pk)
            res = ver.verify(keypool.pgpy_key(blob))
        else:
            lit = wire.build_packet(11, grammar.build_literal(0x62, b'', 0, b'verdict message'))
            body = rsig.sign(psec, 0x00, halg, ('doc', b'verdict message'), keypool.std_hashed(1600000000, ppub.fingerprint), keypool.sp(16, ppub.keyid))
            if wrong == 0:
                body = corrupt(body)
            msg = pgpy.PGPMessage.from_blob(lit + wire.build_packet(2, body))
            res = ver.verify(msg)
    except Exception as e:   # noqa
        rec.finding('scenario', 'exception/%s/%s' % (subject, harness.exc_key(e)), case, repr(e))
        return
    if subject != 'whole-key' and wrong is not None and wrong > 0:
        return
    want = (not expired) and wrong is None and not disqualified
    nt = expired or wrong is not None or n_sigs >= 2
    rec.case(('scn', kid, expired, revoked, halg, subject, wrong), nt,
             ('family/%s-%s' % (fam, strength), 'expired/%s' % expired, 'revoked/%s' % revoked, 'hash/%d' % halg, 'subject/' + subject,
              'wrong/%s' % ('none' if wrong is None else 'one'), 'verdict/%s' % bool(res)),
             {'key': kid, 'strength': strength, 'expired': expired, 'revoked': revoked, 'hash': halg, 'subject': subject, 'wrong_index': wrong, 'truthy': bool(res)})
    if bool(res) != want:
        if disqualified and bool(res):
            cause = 'component-without-valid-self-signature-verifies'
        elif expired and bool(res):
            cause = 'disqualifier-masked-by-advisory-flag' if strength == 'weak' or revoked else 'expired-key-verifies'
        elif wrong is not None and bool(res):
            cause = 'wrong-signature-accepted'
        else:
            cause = 'valid-rejected/%s' % subject
        rec.finding('verdict', cause, case, 'truthy=%r expected %r (%s %s, expired=%s revoked=%s)' % (bool(res), want, fam, strength, expired, revoked))
    # coherence of the returned object
    good = list(res.good_signatures)
    bad = list(res.bad_signatures)
    if len(good) + len(bad) != len(res) or len(res) != n_sigs:
        rec.finding('coherence', 'entries', case, 'good %d bad %d len %d, %d signatures examined' % (len(good), len(bad), len(res), n_sigs))
    if bool(res) != (len(bad) == 0):
        rec.finding('coherence', 'truthiness-vs-bad-list', case, 'bool %r, %d bad' % (bool(res), len(bad)))
    ids = [id(x.signature) for x in good] + [id(x.signature) for x in bad]
    if len(set(ids)) != len(ids):
        rec.finding('coherence', 'listed-twice', case, '')
    if wrong is not None and not expired and not disqualified:
        from pgpy.constants import SecurityIssues
        if not any(x.issues & SecurityIssues.WrongSig for x in bad):
            rec.finding('coherence', 'wrong-signature-not-in-bad', case, '')


def w_scenarios(arg):
    part, nparts = arg
    rec = harness.Rec()
    i = 0
    for (kid, fam, strength), expired, revoked, halg, subject in itertools.product(KEYS, (False, True), (False, True), HASHES, SUBJECTS):
        i += 1
        if i % nparts != part:
            continue
        wrongs = [None, 0] if subject != 'whole-key' else [None, 0, 1, 2, 3]
        for w in wrongs:
            scenario(rec, kid, fam, strength, expired, revoked, halg, subject, w)
    rec.exhaustive['scenario product keys x expired x revoked x hash x subject x wrong-index'] = True
    return rec


def w_pairs(arg):
    """metamorphic: the same scenario on the weak and on the strong key of a family gives the same truthiness"""
    rec = harness.Rec()
    import pgpy
    for fam in ('RSA', 'DSA', 'EC'):
        ks = [k for k in KEYS if k[1] == fam]
        for expired, revoked, halg in itertools.product((False, True), (False, True), HASHES):
            out = []
            for kid, _, strength in ks:
                psec = keypool.ref_secret(kid)
                ver = keypool.pgpy_key(build_cert(kid, expired, revoked, halg))
                body = rsig.sign(psec, 0x00, halg, ('doc', b'pair'), keypool.std_hashed(1600000000, psec.pub.fingerprint), keypool.sp(16, psec.pub.keyid))
                try:
                    out.append(bool(ver.verify(b'pair', pgpy.PGPSignature.from_blob(wire.build_packet(2, body)))))
                except Exception as e:   # noqa
                    out.append('exc:' + type(e).__name__)
            rec.case(('pair', fam, expired, revoked, halg), True, ('pair/' + fam,), {'family': fam, 'expired': expired, 'revoked': revoked, 'hash': halg, 'verdicts': out})
            if len(set(out)) != 1:
                rec.finding('verdict', 'disqualifier-masked-by-advisory-flag' if expired else 'advisory-weakness-changes-verdict',
                            {'kind': 'pair', 'fam': fam, 'expired': expired, 'revoked': revoked, 'halg': halg}, 'weak/strong verdicts differ: %r' % (out,))
    return rec


def w_histories(arg):
    """verdicts on ONE key object across a state change: verify, then merge a newer self-signature that makes the key
    expired (or valid again), then verify again; a freshly loaded copy of the same octets must agree"""
    import pgpy
    rec = harness.Rec()
    for (kid, fam, strength), start_expired, how in itertools.product(KEYS, (False, True), ('uid-or', 'reload-only', 'second-uid')):
        psec = keypool.ref_secret(kid)
        ppub = psec.pub
        case = {'kind': 'hist', 'kid': kid, 'start_expired': start_expired, 'how': how}
        try:
            ver = keypool.pgpy_key(build_cert(kid, start_expired, False, 8))
            body = rsig.sign(psec, 0x00, 8, ('doc', b'history'), keypool.std_hashed(1600000000, ppub.fingerprint), keypool.sp(16, ppub.keyid))
            sig = pgpy.PGPSignature.from_blob(wire.build_packet(2, body))
            first = bool(ver.verify(b'history', sig))
            # a newer self-signature on every user id flips the expiry state
            pk0 = wire.split_packets(build_cert(kid, start_expired, False, 8))
            extra = keypool.sp(27, b'\x03') + (b'' if start_expired else keypool.sp(9, wire.u32(86400)))
            news = []
            for up in [p for p in pk0 if p.tag == 13]:
                nb = rsig.sign(psec, 0x13, 8, ('cert', ppub, 'uid', up.body), keypool.std_hashed(ppub.created + 5000, ppub.fingerprint, extra), keypool.sp(16, ppub.keyid))
                news.append((up.body, nb))
            if how in ('uid-or', 'second-uid'):
                order = news if how == 'uid-or' else news[::-1]
                for ub, nb in order:
                    u = [x for x in ver.userids if x.userid.encode('utf-8') == ub][0]
                    u |= pgpy.PGPSignature.from_blob(wire.build_packet(2, nb))
            else:
                out = b''
                for p in pk0:
                    out += p.raw
                    if p.tag == 13:
                        out += wire.build_packet(2, [nb for ub, nb in news if ub == p.body][0])
                ver = keypool.pgpy_key(out)
            second = bool(ver.verify(b'history', sig))
            fresh = bool(keypool.pgpy_key(bytes(ver)).verify(b'history', sig))
            now_expired = bool(ver.is_expired)
        except Exception as e:   # noqa
            rec.finding('history', 'exception/%s/%s' % (how, harness.exc_key(e)), case, repr(e))
            continue
        rec.case(('hist', kid, start_expired, how), True, ('history/' + how, 'family/%s-%s' % (fam, strength)),
                 {'key': kid, 'started_expired': start_expired, 'change_via': how, 'verdicts': [first, second, fresh], 'is_expired_after': now_expired})
        want_first, want_second = (not start_expired), start_expired
        if first != want_first:
            rec.finding('verdict', 'expired-key-verifies' if first else 'valid-rejected/doc', case, 'before the change: %r' % first)
        if now_expired != (not start_expired):
            rec.finding('history', 'is_expired-after-change', case, 'is_expired=%r' % now_expired)
        if second != want_second or fresh != want_second:
            rec.finding('verdict', 'stale-verdict-after-key-state-change', case, 'same object: %r, freshly loaded: %r, expected %r (is_expired=%r)' % (second, fresh, want_second, now_expired))
    return rec


def run(tier, seed):
    tasks = [('w_algebra', None), ('w_pairs', None), ('w_histories', None)] + [('w_scenarios', (p, 13)) for p in range(13)]
    return harness.pmap('vpgpy.props.c17', 'dispatch', tasks)


def dispatch(task):
    return globals()[task[0]](task[1])


def replay(case):
    rec = harness.Rec()
    k = case['kind']
    if k in ('alg', 'sv', 'sv1'):
        rec = w_algebra(None)
    elif k == 'hist':
        rec = w_histories(None)
        rec.findings = [f for f in rec.findings if f['case'].get('kid') == case['kid'] and f['case'].get('how') == case['how']]
    elif k == 'pair':
        rec = w_pairs(None)
        rec.findings = [f for f in rec.findings if f['case'].get('fam') == case['fam']]
    else:
        fam = [x for x in KEYS if x[0] == case['kid']][0]
        scenario(rec, case['kid'], fam[1], fam[2], case['expired'], case['revoked'], case['halg'], case['subject'], case['wrong'])
    return [(f['clause'], f['cause'], f['detail']) for f in rec.findings]
