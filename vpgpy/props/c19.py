"""C19 -- the keyring index stays consistent over any load / unload history.

Model-based stateful testing: a Hypothesis RuleBasedStateMachine drives PGPKeyring.load/unload over a
universe of keys sharing names, comments and e-mail addresses (public and private halves, subkeys); a
multiset model is advanced beside it and compared after every step.  Failing histories are minimised by
delta debugging on the operation list (replayable without Hypothesis)."""
import os
import tempfile

from hypothesis import strategies as st
from hypothesis.stateful import RuleBasedStateMachine, rule, invariant, precondition, run_state_machine_as_test
import hypothesis

from .. import harness, keypool
from ..refpgp import wire, keys as rkeys, sig as rsig, grammar

RULE = ('RuleBasedStateMachine over a universe of 8 certificates x 2 halves (shared names "Alice"/"Bob", shared comments "work"/"home", names and a comment made only of hexadecimal digits, shared '
        'e-mail addresses, two user ids on one key, keys with encryption and signing subkeys, one key without comment/e-mail): rules load(half, form in '
        'object/binary/armored/temp file/list/tuple), unload(by any identifier of a loaded key) and unload of a single subkey selected by its own identifier; after every step fingerprints() (and its four '
        'filtered forms), len(), and for EVERY identifier of the universe (fingerprints with/without spaces, key ids, short ids, names, comments, '
        'e-mails, subkey ids) membership and key() are compared with the model: a carried identifier selects a loaded key that carries it, any '
        'other raises KeyError; key(signature)/key(message) select the issuer / a recipient. Plus exhaustive enumeration of all operation sequences '
        'up to a bounded length over a 4-object universe. Non-trivial: history with an unload followed by a load or by a lookup of a shared alias; '
        'distinct by operation sequence.')
RULE += ' Names differing only by blanks; several items for the same key in one load call; re-loading the object whose subkey was unloaded on its own; key(signature) for a signature that names its issuer by fingerprint only; key(message) for several recipients of which one private key is loaded.'
RULE += ' The universe also holds names made of hex letters and blanks, a bare-address user id, a user id with a line break and a name that is the key id of another certificate; key(signature) must return the issuer, not a key that carries the key id as a name.'
ASSUMPTIONS = ['which of several carriers of a shared identifier is returned is not asserted', 'loading the same PGPKey object twice is a no-op (documented by the code: keyed by object identity)',
               'two loads of the same blob give two independent objects; unload removes the one it is given']

UNIVERSE = [
    ('ed25519-0', ('Alice (work) <alice@example.org>',), (('cv25519-0', 0x0C),)),
    ('ed25519-1', ('Alice (home) <alice@home.example>',), ()),
    ('ecdsa-p256-0', ('Bob (work) <bob@example.org>', 'Bob Alt <alice@example.org>'), ()),
    ('ed25519-2', ('Carol',), ()),
    ('ecdsa-p256-1', ('Bob (home) <bob@example.org>',), (('ed25519-publead0', 0x02), ('cv25519-1', 0x0C))),
    ('ecdsa-p384-0', ('Alice (work) <alice@example.org>',), ()),
    ('dsa1024-0', ('Dave (work) <dave@example.org>',), (('ecdh-p256-0', 0x0C),)),
    # names and a comment made of hexadecimal digits only (they look like key ids to anything that guesses)
    ('ecdsa-p521-0', ('Abe Dee (cafe) <abe@example.org>', 'Ada'), ()),
    # names and comments that differ only by spaces
    ('ecdsa-k256-0', ('Ann Lee (x y) <annlee@example.org>',), ()),
    ('rsa1024-0', ('AnnLee (xy)',), ()),
    # a user id is UTF-8 text; line breaks in it are unusual but legal
    ('ecdsa-p384-1', ('Multi\nLine (two\nlines) <ml@example.org>',), ()),
    # an address without a display name (an RFC 2822 name-addr, as other implementations write user ids)
    ('ecdsa-p521-1', ('<solo@example.org>',), ()),
    # names / comments made of the letters a-f only, with and without the blanks
    ('ecdsa-p256-xlead0', ('Ada Fee (dead beef)',), ()),
    ('ecdsa-p256-slead0', ('AdaFee (deadbeef)',), ()),
    # a name that reads like the key id of ANOTHER key of the universe (filled in below: the key id of certificate 1)
    ('ecdsa-k256-1', ('@KEYID1@',), ()),
]
UNIVERSE[-1] = (UNIVERSE[-1][0], (keypool.ref_public(UNIVERSE[1][0]).keyid.hex().upper(),), ())
FORMS = ['object', 'binary', 'armored', 'file', 'list', 'tuple', 'dup-list', 'dup-args']


def split_uid(u):
    import re
    m = re.match(r'^(?P<name>.*?)( \((?P<comment>.+?)\)(?=( ?<|\Z)))?( ?<(?P<email>.+)>)?\Z', u, re.S)
    return m.group('name'), m.group('comment') or '', m.group('email') or ''


class Universe(object):
    def __init__(self):
        self.blobs = {}
        self.info = []
        for i, (kid, uids, subs) in enumerate(UNIVERSE):
            for half in ('pub', 'sec'):
                self.blobs[(i, half)] = keypool.ref_cert(kid, uids=uids, subkeys=subs, secret=(half == 'sec'))
            fp = keypool.ref_public(kid).fingerprint.hex().upper()
            al = set()
            for u in uids:
                n, c, e = split_uid(u)
                al |= {x for x in (n, c, e) if x}
            self.info.append({'fp': fp, 'aliases': al, 'subs': [keypool.ref_public(s[0]).fingerprint.hex().upper() for s in subs]})
        ids = set()
        for inf in self.info:
            for f in [inf['fp']] + inf['subs']:
                ids |= {f, f[-16:], f[-8:], ' '.join(f[i:i + 4] for i in range(0, 40, 4))}
            ids |= inf['aliases']
        ids |= {'Nobody', 'nobody@example.org', 'DEADBEEF', '0' * 40, 'A' * 16}
        self.identifiers = sorted(ids)

    def carriers(self, ident):
        """set of (index, component) whose aliases include ident; component 'p' or subkey number"""
        out = set()
        k = ident.replace(' ', '')
        for i, inf in enumerate(self.info):
            fps = [inf['fp']] + inf['subs']
            for j, f in enumerate(fps):
                if k in (f, f[-16:], f[-8:]) and len(k) in (40, 16, 8):
                    out.add((i, j))
            if ident in inf['aliases']:
                out.add((i, 0))
        return out


_U = {}


def universe():
    if 'u' not in _U:
        _U['u'] = Universe()
    return _U['u']


class State(object):
    """real keyring + model"""

    def __init__(self):
        import pgpy
        self.kr = pgpy.PGPKeyring()
        self.loaded = []          # list of [index, half] per loaded primary instance (multiset)
        self.dropped = {}         # (index, half) -> set of subkey numbers unloaded on their own (only while that index is loaded once)
        self.objects = {}         # (index, half) -> PGPKey object used for 'object' form loads
        self.ops = []
        self.tmp = None

    def close(self):
        if self.tmp:
            import shutil
            shutil.rmtree(self.tmp, ignore_errors=True)


def apply(state, op):
    """op: ['load', index, half, form] | ['unload', identifier].  Updates keyring and model."""
    U = universe()
    state.ops.append(op)
    if op[0] == 'load':
        _, i, half, form = op
        if any(k[0] == i for k in state.dropped):
            if form == 'object' and (i, half) in state.objects and (i, half) in state.dropped:
                # the very object whose subkey was unloaded is loaded again: load() reports the subkey as loaded, so it is
                state.kr.load(state.objects[(i, half)])
                state.dropped.pop((i, half))
                return
            state.ops.pop()
            return 'skipped'          # keeps the model exact: a certificate with an individually unloaded subkey stays the only instance of itself
        blob = U.blobs[(i, half)]
        import pgpy
        if form == 'object':
            if (i, half) not in state.objects:
                state.objects[(i, half)] = keypool.pgpy_key(blob)
                state.loaded.append([i, half])
            state.kr.load(state.objects[(i, half)])
            return
        if form == 'binary':
            arg = blob
        elif form == 'armored':
            arg = str(keypool.pgpy_key(blob))
        elif form == 'file':
            if state.tmp is None:
                state.tmp = tempfile.mkdtemp(prefix='vc19')
            path = os.path.join(state.tmp, 'k%d%s.asc' % (i, half))
            with open(path, 'w') as f:
                f.write(str(keypool.pgpy_key(blob)))
            arg = path
        elif form == 'list':
            arg = [blob]
        elif form in ('dup-list', 'dup-args'):
            # the same key half twice in ONE load call (binary + armored): two independent instances, as with two calls
            items = [blob, str(keypool.pgpy_key(blob))]
            got = state.kr.load(items) if form == 'dup-list' else state.kr.load(items[0], items[1])
            state.loaded.append([i, half])
            state.loaded.append([i, half])
            want = {U.info[i]['fp']} | set(U.info[i]['subs'])
            if {str(x) for x in got} != want:
                raise AssertionError('load-return-value: %r != %r' % (sorted(str(x) for x in got), sorted(want)))
            return
        else:
            arg = (bytearray(blob),)
        got = state.kr.load(arg)
        state.loaded.append([i, half])
        want = {U.info[i]['fp']} | set(U.info[i]['subs'])
        if {str(x) for x in got} != want:
            raise AssertionError('load-return-value: %r != %r' % (sorted(str(x) for x in got), sorted(want)))
    elif op[0] == 'unload_sub':
        # the documented select-then-unload idiom with an identifier that resolves to a subkey: only that subkey goes
        ident = op[1]
        car = [c for c in U.carriers(ident) if c[1] > 0 and sum(1 for x in state.loaded if x[0] == c[0]) == 1
               and c[1] not in state.dropped.get((c[0], [x for x in state.loaded if x[0] == c[0]][0][1]), set())]
        if len(car) != 1 or len({c[0] for c in U.carriers(ident) if any(x[0] == c[0] for x in state.loaded)}) != 1:
            state.ops.pop()
            return 'skipped'
        with state.kr.key(ident) as k:
            target = k
        if target.is_primary:
            raise AssertionError('subkey-identifier-selects-primary: %r' % ident)
        i, j = car[0]
        half = [x for x in state.loaded if x[0] == i][0][1]
        state.kr.unload(target)
        state.dropped.setdefault((i, half), set()).add(j)
    else:
        ident = op[1]
        with state.kr.key(ident) as k:
            target = k
        if not target.is_primary:
            target = target.parent
        fp = str(target.fingerprint)
        half = 'pub' if target.is_public else 'sec'
        idx = [n for n, inf in enumerate(U.info) if inf['fp'] == fp][0]
        state.kr.unload(target)
        state.loaded.remove([idx, half])
        state.dropped.pop((idx, half), None)
        for key_, obj in list(state.objects.items()):
            if obj is target:
                del state.objects[key_]


def check(state):
    """-> list of (cause, detail) discrepancies between keyring and model"""
    U = universe()
    kr = state.kr
    out = []
    model_fps = set()
    n_objs = 0
    by_half = {'pub': set(), 'sec': set()}
    prim, subs = set(), set()
    gone = set()
    for i, half in state.loaded:
        inf = U.info[i]
        drop = state.dropped.get((i, half), set())
        gone |= {(i, j) for j in drop}
        live = [f for j, f in enumerate(inf['subs'], 1) if j not in drop]
        model_fps |= {inf['fp']} | set(live)
        n_objs += 1 + len(live)
        by_half[half] |= {inf['fp']} | set(live)
        prim.add(inf['fp'])
        subs |= set(live)
    got = {str(f) for f in kr.fingerprints()}
    if got != model_fps:
        out.append(('fingerprints', 'fingerprints() %d vs model %d: extra %r missing %r' % (len(got), len(model_fps), sorted(got - model_fps)[:2], sorted(model_fps - got)[:2])))
    if len(kr) != n_objs:
        out.append(('len', 'len %d, model %d' % (len(kr), n_objs)))
    for kw, want in ((dict(keyhalf='public'), by_half['pub']), (dict(keyhalf='private'), by_half['sec']), (dict(keytype='primary'), prim), (dict(keytype='sub'), subs)):
        g = {str(f) for f in kr.fingerprints(**kw)}
        if g != want:
            out.append(('fingerprints-filter', '%r: %r vs %r' % (kw, sorted(g)[:3], sorted(want)[:3])))
    loaded_idx = {i for i, _ in state.loaded}
    for ident in U.identifiers:
        car = {c for c in U.carriers(ident) if c[0] in loaded_idx and c not in gone}
        try:
            inn = ident in kr
        except Exception as e:   # noqa
            out.append(('contains-exception', '%r: %r' % (ident, e)))
            continue
        k = None
        err = None
        try:
            with kr.key(ident) as kk:
                k = kk
        except KeyError:
            err = 'KeyError'
        except Exception as e:   # noqa
            err = repr(e)
        if car:
            if not inn:
                out.append(('alias-lost', '%r is carried by a loaded key but "in" is False' % ident))
            if k is None:
                out.append(('alias-lost' if err == 'KeyError' else 'key-exception', '%r carried by loaded key but key() -> %s' % (ident, err)))
            else:
                fp = str(k.fingerprint)
                ok = False
                for (i, j) in car:
                    fps = [U.info[i]['fp']] + U.info[i]['subs']
                    half = 'pub' if k.is_public else 'sec'
                    if fps[j] == fp and [i, half] in state.loaded:
                        ok = True
                if not ok:
                    out.append(('wrong-key-selected', '%r selected %s (%s) which is not a loaded carrier' % (ident, fp, 'pub' if k.is_public else 'sec')))
        else:
            if inn:
                out.append(('stale-alias', '%r belongs to no loaded key but "in" is True' % ident))
            if err != 'KeyError':
                out.append(('stale-alias', '%r belongs to no loaded key but key() -> %s' % (ident, 'a key' if k is not None else err)))
    return out


_SIGS = {}


def check_selectors(state):
    """key(signature) / key(message): a loaded issuer / recipient is selected"""
    import pgpy
    U = universe()
    out = []
    if 'sig' not in _SIGS:
        k4 = keypool.pgpy_key(U.blobs[(4, 'sec')])
        _SIGS['sig'] = bytes(k4.sign(b'by the signing subkey of key 4'))
        k1 = keypool.pgpy_key(U.blobs[(1, 'sec')])
        _SIGS['sig1'] = bytes(k1.sign(b'by key 1'))
        pub0 = keypool.pgpy_key(U.blobs[(0, 'pub')])
        _SIGS['msg'] = bytes(list(pub0.subkeys.values())[0].encrypt(pgpy.PGPMessage.new(b'to key 0')))
        # a signature that names its issuer by the Issuer Fingerprint subpacket only (RFC 4880 does not require an Issuer subpacket)
        sec1 = keypool.ref_secret(UNIVERSE[1][0])
        _SIGS['sigfp'] = wire.build_packet(2, rsig.sign(sec1, 0x00, 8, ('doc', b'fingerprint only'), keypool.std_hashed(1600000000, sec1.pub.fingerprint), b''))
        # a message for two recipients (keys 0 and 6)
        pub6 = keypool.pgpy_key(U.blobs[(6, 'pub')])
        from pgpy.constants import SymmetricKeyAlgorithm
        sk = SymmetricKeyAlgorithm.AES128.gen_key()
        e = list(pub0.subkeys.values())[0].encrypt(pgpy.PGPMessage.new(b'to keys 0 and 6'), cipher=SymmetricKeyAlgorithm.AES128, sessionkey=sk)
        _SIGS['msg2'] = bytes(list(pub6.subkeys.values())[0].encrypt(e, cipher=SymmetricKeyAlgorithm.AES128, sessionkey=sk))
    loaded_idx = {i for i, _ in state.loaded}
    # several recipients: when the private half of one of them is loaded, the selected key is a private component of a recipient
    # (a public key of another recipient can neither decrypt nor have issued the message)
    sec_rcpt = [i for i in (0, 6) if [i, 'sec'] in state.loaded and not any(k_[0] == i for k_ in state.dropped)]
    if sec_rcpt and not any(k_[0] in (0, 6) for k_ in state.dropped):
        try:
            with state.kr.key(pgpy.PGPMessage.from_blob(_SIGS['msg2'])) as k:
                ok = (not k.is_public) and str(k.fingerprint) in [U.info[i]['subs'][0] for i in sec_rcpt] + [U.info[i]['fp'] for i in sec_rcpt]
                if not ok:
                    out.append(('selector-msg2', 'a private recipient is loaded but key(message) -> %s (%s)' % (k.fingerprint, 'public' if k.is_public else 'private')))
        except Exception as e:   # noqa
            out.append(('selector-msg2', 'a private recipient is loaded but key(message) -> %r' % (e,)))
    for name, idx, issuer_fp in (('sig', 4, U.info[4]['subs'][0]), ('sig1', 1, U.info[1]['fp']), ('msg', 0, U.info[0]['subs'][0]), ('sigfp', 1, U.info[1]['fp'])):
        obj = (pgpy.PGPMessage if name == 'msg' else pgpy.PGPSignature).from_blob(_SIGS[name])
        try:
            with state.kr.key(obj) as k:
                got = str(k.fingerprint)
            err = None
        except KeyError:
            got, err = None, 'KeyError'
        except Exception as e:   # noqa
            got, err = None, repr(e)
        if any(k_[0] == idx for k_ in state.dropped):
            continue          # the addressed subkey may be the one that was unloaded on its own: nothing is asserted
        if idx in loaded_idx:
            if got != issuer_fp and got != U.info[idx]['fp']:
                out.append(('selector-' + name, 'issuer/recipient loaded but key(%s) -> %s %s' % (name, got, err)))
        elif got is not None or err != 'KeyError':
            out.append(('selector-' + name, 'issuer/recipient not loaded but key(%s) -> %s %s' % (name, got, err)))
    return out


def run_ops(ops, rec=None, selectors=True):
    """execute a history from scratch; returns list of (clause, cause, detail) at the first diverging step"""
    st_ = State()
    try:
        for n, op in enumerate(ops):
            try:
                if apply(st_, op) == 'skipped':
                    continue
            except KeyError as e:
                return [('step', 'unload-keyerror', 'step %d %r: %r' % (n, op, e))]
            except AssertionError as e:
                return [('step', str(e).split(':')[0], 'step %d %r: %s' % (n, op, e))]
            except Exception as e:   # noqa
                return [('step', 'exception/' + harness.exc_key(e), 'step %d %r: %r' % (n, op, e))]
            d = check(st_)
            if selectors:
                d += check_selectors(st_)
            if d:
                return [('invariant', c, 'after step %d %r: %s' % (n, op, det)) for c, det in d[:4]]
        return []
    finally:
        st_.close()


def record_history(rec, ops, res):
    unloads = [i for i, o in enumerate(ops) if o[0] in ('unload', 'unload_sub')]
    nt = bool(unloads) and unloads[0] < len(ops) - 1
    forms = {o[3] for o in ops if o[0] == 'load'}
    rec.case(('hist', tuple(tuple(o) for o in ops)), nt, ['len/%d' % min(len(ops), 12), 'unloads/%d' % min(len(unloads), 5)] + ['form/' + f for f in forms] + (['subkey-unloaded-on-its-own'] if any(o[0] == 'unload_sub' for o in ops) else []),
             {'history': ops})
    for clause, cause, det in res:
        rec.finding(clause, cause, {'ops': ops}, det)


class BudgetOver(Exception):
    """the wall-clock budget of the worker is used up: the search ends here (inconclusive, never a violation)"""


def make_machine(rec, budget):
    U = universe()

    class KeyringMachine(RuleBasedStateMachine):
        def __init__(self):
            super(KeyringMachine, self).__init__()
            self.s = State()
            self.broken = False

        @rule(i=st.integers(0, len(UNIVERSE) - 1), half=st.sampled_from(['pub', 'sec']), form=st.sampled_from(FORMS))
        def load(self, i, half, form):
            if budget.over():
                # stop the whole run: turning rules into no-ops would change what later steps may draw for the same choice prefix
                raise BudgetOver()
            if self.broken:
                return
            self._do(['load', i, half, form])

        @precondition(lambda self: len(self.s.loaded) > 0)
        @rule(data=st.data())
        def unload(self, data):
            if budget.over():
                # stop the whole run: turning rules into no-ops would change what later steps may draw for the same choice prefix
                raise BudgetOver()
            if self.broken:
                return
            i, half = data.draw(st.sampled_from(sorted(self.s.loaded)))
            inf = U.info[i]
            drop = self.s.dropped.get((i, half), set())
            idents = sorted({inf['fp'], inf['fp'][-16:], inf['fp'][-8:]} | inf['aliases'] | {f for j, f in enumerate(inf['subs'], 1) if j not in drop})
            self._do(['unload', data.draw(st.sampled_from(idents))])

        @precondition(lambda self: any(U.info[i]['subs'] for i, _ in self.s.loaded))
        @rule(data=st.data())
        def unload_subkey(self, data):
            if budget.over():
                # stop the whole run: turning rules into no-ops would change what later steps may draw for the same choice prefix
                raise BudgetOver()
            if self.broken:
                return
            i, half = data.draw(st.sampled_from(sorted(x for x in self.s.loaded if U.info[x[0]]['subs'])))
            f = data.draw(st.sampled_from(U.info[i]['subs']))
            self._do(['unload_sub', data.draw(st.sampled_from([f, f[-16:], f[-8:]]))])

        def _do(self, op):
            try:
                if apply(self.s, op) == 'skipped':
                    return
                d = check(self.s) + check_selectors(self.s)
                res = [('invariant', c, 'after step %d %r: %s' % (len(self.s.ops) - 1, op, det)) for c, det in d[:4]]
            except KeyError as e:
                res = [('step', 'unload-keyerror', '%r: %r' % (op, e))]
            except AssertionError as e:
                res = [('step', str(e).split(':')[0], '%r: %s' % (op, e))]
            except Exception as e:   # noqa
                res = [('step', 'exception/' + harness.exc_key(e), '%r: %r' % (op, e))]
            if res:
                self.broken = True
                self.res = res

        def teardown(self):
            if self.s.ops:
                record_history(rec, [list(o) for o in self.s.ops], getattr(self, 'res', []))
            self.s.close()
    return KeyringMachine


def w_machine(arg):
    seed, idx, n, steps, bsec = arg
    rec = harness.Rec()
    budget = harness.Budget(bsec)
    M = make_machine(rec, budget)
    try:
        run_state_machine_as_test(hypothesis.seed(harness.derive_seed('C19', seed, idx))(M), settings=harness.hyp_settings(n, stateful_steps=steps))
    except BudgetOver:
        rec.inconclusive = True
    except BaseException:   # noqa
        # Hypothesis reports a run cut short by the budget in several ways (the replay of the "failing" example is cut short again)
        if not budget.over():
            raise
        rec.inconclusive = True
    if budget.over():
        rec.inconclusive = True
    return rec


def w_exhaustive(arg):
    """all sequences up to length L over a small alphabet of operations on a 4-object universe"""
    part, nparts, L = arg
    import itertools
    rec = harness.Rec()
    alpha = [['load', 0, 'pub', 'object'], ['load', 0, 'sec', 'binary'], ['load', 2, 'pub', 'dup-list'], ['load', 5, 'pub', 'binary'], ['load', 2, 'pub', 'object'],
             ['unload', 'Alice'], ['unload', 'alice@example.org'], ['unload', 'work'], ['unload', universe().info[0]['fp'][-16:]],
             ['unload_sub', universe().info[0]['subs'][0][-16:]], ['load', 7, 'pub', 'armored'], ['unload', 'Ada']]
    n = 0
    for ln in range(1, L + 1):
        for seq in itertools.product(range(len(alpha)), repeat=ln):
            n += 1
            if n % nparts != part:
                continue
            ops = [alpha[i] for i in seq]
            res = run_ops(ops, selectors=False)
            # an unload of an identifier nobody carries is a legitimate KeyError, not a finding: cut the history there
            if res and res[0][1] == 'unload-keyerror':
                continue
            record_history(rec, ops, res)
    rec.exhaustive['all operation sequences of length <= %d over a 12-operation alphabet' % L] = True
    return rec


def w_stubs(arg):
    """public and private halves coexist, and so do private keys whose secret material is elsewhere (gpg --export-secret-subkeys, card keys: the
    subkey packet is a stub).  A message for two recipients, one loaded as a stub and one as a complete private key, in both load orders and both
    role assignments: key(message) must yield a key that can decrypt it -- which is tried."""
    import pgpy
    from pgpy.constants import SymmetricKeyAlgorithm
    seed = arg
    rec = harness.Rec()
    names = [('ed25519-0', 'cv25519-0'), ('dsa1024-0', 'ecdh-p256-0')]

    def blob(prim, sub, form):
        full = keypool.ref_cert(prim, uids=('Stub Test %s <st@example.org>' % prim,), subkeys=((sub, 0x0C),), secret=True)
        if form == 'full':
            return full
        a, c_, params, _s, curve, kdf = keypool.numbers(sub)
        from ..refpgp import keys as rkeys
        pk = wire.split_packets(full)
        return b''.join(wire.build_packet(7, rkeys.build_gnu_dummy_body(a, c_, params, curve, kdf, mode=1 + seed % 2, serial=bytes(range(6)))) if p.tag == 7 else p.raw for p in pk)
    pubs = [keypool.pgpy_key(keypool.ref_cert(pr, uids=('Stub Test %s <st@example.org>' % pr,), subkeys=((sb, 0x0C),), secret=False)) for pr, sb in names]
    sk = SymmetricKeyAlgorithm.AES128.gen_key()
    e = list(pubs[0].subkeys.values())[0].encrypt(pgpy.PGPMessage.new(b'to both'), cipher=SymmetricKeyAlgorithm.AES128, sessionkey=sk)
    msg = bytes(list(pubs[1].subkeys.values())[0].encrypt(e, cipher=SymmetricKeyAlgorithm.AES128, sessionkey=sk))
    for stub_i in (0, 1):
        for order in (0, 1):
            case = {'kind': 'stubs', 'seed': seed, 'stub': stub_i, 'order': order}
            rec.case(('stubs', stub_i, order), True, ('selector/message-with-a-stub-recipient', 'stub/%d' % stub_i, 'load-order/%d' % order),
                     {'recipients': [n[1] for n in names], 'loaded_as_stub': names[stub_i][1], 'loaded_complete': names[1 - stub_i][1], 'load_order_reversed': bool(order)})
            try:
                kr = pgpy.PGPKeyring()
                blobs = [blob(names[i][0], names[i][1], 'stub' if i == stub_i else 'full') for i in (0, 1)]
                for b in (blobs[::-1] if order else blobs):
                    kr.load(b)
                with kr.key(pgpy.PGPMessage.from_blob(msg)) as k:
                    got = str(k.fingerprint)
                    out = k.decrypt(pgpy.PGPMessage.from_blob(msg)).message
                    out = out.encode() if isinstance(out, str) else bytes(out)
                if out != b'to both':
                    rec.finding('invariant', 'selector-msg-stub', case, 'decrypted %r' % out)
            except Exception as e:   # noqa
                rec.finding('invariant', 'selector-msg-stub', case, 'a complete private recipient is loaded but the key that key(message) yields cannot decrypt: %r' % (e,))
    return rec


def w_naive(arg):
    """a key object made by PGPKey.new() with a time-zone-naive creation time (accepted with a warning, exported as UTC) is loaded next to a parsed
    key that shares its name: load must not tear the index -- both fingerprints reported, the shared name and each e-mail select a carrier"""
    import datetime
    import pgpy
    from pgpy.constants import PubKeyAlgorithm, EllipticCurveOID, KeyFlags, HashAlgorithm
    seed = arg
    rec = harness.Rec()
    for order in (0, 1):
        case = {'kind': 'naive', 'seed': seed, 'order': order}
        rec.case(('naive', order), True, ('load/object-with-naive-creation-time', 'load-order/%d' % order), {'form': 'object made by PGPKey.new(created=<naive datetime>)', 'shares_name_with': 'a parsed key', 'loaded_first': bool(order)})
        try:
            fresh = pgpy.PGPKey.new(PubKeyAlgorithm.EdDSA, EllipticCurveOID.Ed25519, created=datetime.datetime(2024, 1, 1 + seed % 20, 12, 0))
            fresh.add_uid(pgpy.PGPUID.new('Alice', comment='work', email='fresh@example.org'), usage={KeyFlags.Sign, KeyFlags.Certify}, hashes=[HashAlgorithm.SHA256])
            parsed = universe().blobs[(0, 'pub')]
            kr = pgpy.PGPKeyring()
            for item in ([fresh, parsed] if order else [parsed, fresh]):
                kr.load(item)
            fps = set(kr.fingerprints())
            want = {str(fresh.fingerprint), universe().info[0]['fp']}
            probs = []
            if not want <= {f.replace(' ', '') for f in fps}:
                probs.append('fingerprints() reports %r' % sorted(fps))
            for ident, carriers in (('Alice', want), ('fresh@example.org', {str(fresh.fingerprint)}), ('alice@example.org', {universe().info[0]['fp']})):
                try:
                    with kr.key(ident) as k:
                        if str(k.fingerprint) not in carriers:
                            probs.append('%r selects %s' % (ident, k.fingerprint))
                except KeyError:
                    probs.append('%r selects nothing' % ident)
            for pr in probs:
                rec.finding('invariant', 'naive-creation-time/index-torn', case, pr)
        except Exception as e:   # noqa
            rec.finding('step', 'naive-creation-time/load-exception', case, repr(e))
    return rec


def run(tier, seed):
    tasks = [('w_stubs', seed), ('w_naive', seed)]
    L = 4 if tier == 'quick' else 5
    for p in range(6):
        tasks.append(('w_exhaustive', (p, 6, L)))
    n, steps, bsec = (250, 14, 60) if tier == 'quick' else (3000, 30, 900)
    for i in range(10):
        tasks.append(('w_machine', (seed, i, n, steps, bsec)))
    return harness.pmap('vpgpy.props.c19', 'dispatch', tasks)


def dispatch(task):
    return globals()[task[0]](task[1])


def replay(case):
    if case.get('kind') == 'naive':
        return [(f['clause'], f['cause'], f['detail']) for f in w_naive(case['seed']).findings]
    if case.get('kind') == 'stubs':
        return [(f['clause'], f['cause'], f['detail']) for f in w_stubs(case['seed']).findings]
    return run_ops(case['ops'])


def minimise(finding):
    """delta debugging on the operation list: drop operations while the same bucket still fails"""
    ops = list(finding['case']['ops'])
    bucket = (finding['clause'], finding['cause'])

    def fails(o):
        return any((r[0], r[1]) == bucket for r in run_ops(o))
    if not fails(ops):
        return None
    changed = True
    while changed:
        changed = False
        for i in range(len(ops)):
            cand = ops[:i] + ops[i + 1:]
            if cand and fails(cand):
                ops = cand
                changed = True
                break
    return {'ops': ops}
