"""C15 -- key-management histories keep a key self-consistent.

Model-based stateful testing over operation histories on two keys (see vpgpy/certmachine.py): every
self-signature, binding (with embedded cross-signature) and revocation verifies under PGPy and under the
reference on the exported octets after every step; effective flags/preferences/primary mark/expiry of each
unrevoked identity come from a most recent self-signature; removed identities are gone; revocations are
reported for exactly the revoked component; the public twin mirrors the key."""
from .. import harness, certmachine

RULE = ('Hypothesis draws histories (lists of up to 10 / 30 operations, interpreted modulo the current state) over two keys of 6 algorithms, each starting as a bare pooled secret key or as a complete foreign-made secret key (non-canonical hashed areas, ECDH subkeys with non-default KDF parameters): add identity '
        '(6 names incl. substring pairs, UTF-8; 5 flag sets x 4 preference sets x primary mark x key expiry; clock steps 0/0/1 s so ties occur), add photo, add subkey '
        '(7 kinds), re-certify, third-party certify (exportable unset/true/false), revoke identity/subkey/key, re-bind, designated revoker, remove identity, protect, '
        'unlock-and-sign, derive and keep a public twin, copy (continue on the copy), export/import binary or armored (continue on the import); the invariants run after '
        'every applied step; a bounded systematic enumeration of all sequences of length <= 3 over a 9-operation alphabet on one key is added. Non-trivial: a history with a '
        're-certification or revocation followed by a further step, or an export/import or copy in the middle; distinct by operation-name sequence.')
RULE += ' Key revocations are also issued by a designated revoker of the key (reported) and by a key that was never authorised (not reported).'
RULE += ' Worker fresh: keys made by PGPKey.new() with creation times carrying microseconds; expiry and creation of the live key, its twin and a signature must equal those of their re-imported export.'
ASSUMPTIONS = ['on a creation-time tie between self-signatures either tied value is accepted', 'identities that carry a revocation are not checked for effective values',
               'refpgp.grammar/sig decide validity of the exported certificate']


def classify(rec, case, res, applied):
    names = tuple(applied)
    mid = any(n in ('recert', 'revoke_uid', 'revoke_sub', 'revoke_key', 'export_import', 'copy') for n in names[:-1])
    rec.case(('hist', 'foreign' if case.get('start') else 'bare') + names, bool(mid), ['len/%d' % min(len(names), 12)] + ['op/' + n for n in set(names)] + ['start/foreign' if case.get('start') else 'start/bare'], {'keys': case['kids'], 'applied_operations': list(names)})
    for clause, cause, det in res:
        rec.finding(clause, cause, case, det)


def shard(arg):
    seed, idx, n, maxops, bsec = arg
    rec = harness.Rec()

    def body(case):
        res, applied = certmachine.run_ops(case, certmachine.inv_c15)
        classify(rec, case, res, applied)
    harness.run_given(certmachine.history_strategy(maxops), body, harness.derive_seed('C15', seed, idx), n, harness.Budget(bsec), rec)
    return rec


ALPHA = [['add_uid', 0, 0, 0, 0, 1, 0, 0], ['add_uid', 0, 1, 2, 1, 2, 1, 0], ['recert', 0, 0, 3, 1, 1, 2, 0], ['revoke_uid', 0, 0, 0], ['add_subkey', 0, 1, 0],
         ['del_uid', 0, 0], ['pubkey', 0], ['export_import', 0, 1], ['copy', 0]]


def systematic(arg):
    part, nparts, L = arg
    import itertools
    rec = harness.Rec()
    n = 0
    for ln in range(1, L + 1):
        for seq in itertools.product(range(len(ALPHA)), repeat=ln):
            n += 1
            if n % nparts != part:
                continue
            case = {'kids': ['ed25519-0', 'ecdsa-p256-0'], 'ops': [['add_uid', 0, 3, 0, 0, 0, 0, 0]] + [ALPHA[i] for i in seq]}
            if n % 3 == 0:
                # every third sequence starts from a key written by another implementation (see certmachine.QUIRKS / FOREIGN_SUBS)
                case['start'] = [[4, [n % 7], n % 4], None]
            res, applied = certmachine.run_ops(case, certmachine.inv_c15)
            classify(rec, case, res, applied)
    rec.exhaustive['all sequences of length <= %d over a 9-operation alphabet' % L] = True
    return rec


def fresh(arg):
    """keys made by PGPKey.new() (their creation time is a datetime that may carry a sub-second part, unlike a parsed key's): what the live
    object says about the expiry of the key and of a signature must be what its own export says after import -- the packets hold whole seconds"""
    import datetime
    import pgpy
    from pgpy.constants import PubKeyAlgorithm, EllipticCurveOID, KeyFlags, HashAlgorithm
    seed = arg
    rec = harness.Rec()
    utc = datetime.timezone.utc
    for us in (0, 1, 500000, 999999, None):
        for form in ('datetime', 'timedelta'):
            case = {'kind': 'fresh', 'microsecond': us, 'form': form}
            rec.case(('fresh', us, form), True, ['fresh-key', 'created-microsecond/%s' % us, 'key-expiration/' + form], {'created_microsecond': us, 'key_expiration_given_as': form})
            try:
                kw = {} if us is None else {'created': datetime.datetime(2020, 1, 1 + seed % 20, 0, 0, 0, us, tzinfo=utc)}
                key = pgpy.PGPKey.new(PubKeyAlgorithm.EdDSA, EllipticCurveOID.Ed25519, **kw)
                when = datetime.datetime(2031, 1, 1, tzinfo=utc)
                kexp = when if form == 'datetime' else datetime.timedelta(days=4000)
                key.add_uid(pgpy.PGPUID.new('Fresh Key'), usage={KeyFlags.Certify, KeyFlags.Sign}, hashes=[HashAlgorithm.SHA256], key_expiration=kexp)
                sig = key.sign(b'fresh', expires=when if form == 'datetime' else datetime.timedelta(days=30))
                live = (key.expires_at, key.pubkey.expires_at, sig.expires_at, key.created, sig.created)
                back = pgpy.PGPKey.from_blob(bytes(key.pubkey))[0]
                sback = pgpy.PGPSignature.from_blob(bytes(sig))
                after = (back.expires_at, back.expires_at, sback.expires_at, back.created, sback.created)
            except Exception as e:   # noqa
                rec.finding('fresh', 'exception/' + harness.exc_key(e), case, repr(e))
                continue
            names = ('key expiry', 'twin expiry', 'signature expiry', 'key creation', 'signature creation')
            diff = [n for n, a, b in zip(names, live, after) if a != b]
            if diff:
                rec.finding('fresh', 'live-object-differs-from-its-export/' + '+'.join(d.split()[-1] for d in diff), case,
                            '; '.join('%s: %s live, %s after import' % (n, a, b) for n, a, b in zip(names, live, after) if a != b))
            if form == 'datetime' and after[0] != when:
                rec.finding('fresh', 'expiry-is-not-the-instant-asked-for', case, '%s asked, %s exported' % (when, after[0]))
    return rec


def run(tier, seed):
    tasks = [('systematic', (p, 6, 3 if tier == 'quick' else 4)) for p in range(6)] + [('fresh', seed)]
    n, maxops, bsec = (100, 12, 100) if tier == 'quick' else (800, 30, 1200)
    for i in range(16 if tier == 'quick' else 26):
        tasks.append(('shard', (seed, i, n, maxops, bsec)))
    return harness.pmap('vpgpy.props.c15', 'dispatch', tasks)


def dispatch(task):
    return globals()[task[0]](task[1])


def replay(case):
    if case.get('kind') == 'fresh':
        return [(f['clause'], f['cause'], f['detail']) for f in fresh(0).findings]
    return certmachine.run_ops(case, certmachine.inv_c15)[0]


def minimise(finding):
    return certmachine.minimise_ops(finding['case'], certmachine.inv_c15, (finding['clause'], finding['cause']))
