"""C15 -- key-management histories keep a key self-consistent.

Model-based stateful testing over operation histories on two keys (see vpgpy/certmachine.py): every
self-signature, binding (with embedded cross-signature) and revocation verifies under PGPy and under the
reference on the exported octets after every step; effective flags/preferences/primary mark/expiry of each
unrevoked identity come from a most recent self-signature; removed identities are gone; revocations are
reported for exactly the revoked component; the public twin mirrors the key."""
from .. import harness, certmachine

RULE = ('Hypothesis draws histories (lists of up to 10 / 30 operations, interpreted modulo the current state) over two keys of 6 algorithms, each starting as a bare pooled secret key or as a complete foreign-made secret key (non-canonical hashed areas, ECDH subkeys with non-default KDF parameters): add identity '
        '(6 names incl. substring pairs, UTF-8; 5 flag sets x 4 preference sets x primary mark x key expiry; clock steps 0/0/1 s so ties occur), add photo, add subkey '
        '(7 kinds), re-certify, third-party certify (exportable unset/true/false), revoke identity/subkey/key, re-bind, designated revoker, remove identity, protect, '
        'unlock-and-sign, derive and keep a public twin, copy (continue on the copy), export/import binary or armored (continue on the import); the invariants run after '
        'every applied step; a bounded systematic enumeration of all sequences of length <= 3 over a 9-operation alphabet on one key is added. Non-trivial: a history with a '
        're-certification or revocation followed by a further step, or an export/import or copy in the middle; distinct by operation-name sequence.')
RULE += ' Key revocations are also issued by a designated revoker of the key (reported) and by a key that was never authorised (not reported).'
ASSUMPTIONS = ['on a creation-time tie between self-signatures either tied value is accepted', 'identities that carry a revocation are not checked for effective values',
               'refpgp.grammar/sig decide validity of the exported certificate']


def classify(rec, case, res, applied):
    names = tuple(applied)
    mid = any(n in ('recert', 'revoke_uid', 'revoke_sub', 'revoke_key', 'export_import', 'copy') for n in names[:-1])
    rec.case(('hist', 'foreign' if case.get('start') else 'bare') + names, bool(mid), ['len/%d' % min(len(names), 12)] + ['op/' + n for n in set(names)] + ['start/foreign' if case.get('start') else 'start/bare'], {'keys': case['kids'], 'applied_operations': list(names)})
    for clause, cause, det in res:
        rec.finding(clause, cause, case, det)


def shard(arg):
    seed, idx, n, maxops, bsec = arg
    rec = harness.Rec()

    def body(case):
        res, applied = certmachine.run_ops(case, certmachine.inv_c15)
        classify(rec, case, res, applied)
    harness.run_given(certmachine.history_strategy(maxops), body, harness.derive_seed('C15', seed, idx), n, harness.Budget(bsec), rec)
    return rec


ALPHA = [['add_uid', 0, 0, 0, 0, 1, 0, 0], ['add_uid', 0, 1, 2, 1, 2, 1, 0], ['recert', 0, 0, 3, 1, 1, 2, 0], ['revoke_uid', 0, 0, 0], ['add_subkey', 0, 1, 0],
         ['del_uid', 0, 0], ['pubkey', 0], ['export_import', 0, 1], ['copy', 0]]


def systematic(arg):
    part, nparts, L = arg
    import itertools
    rec = harness.Rec()
    n = 0
    for ln in range(1, L + 1):
        for seq in itertools.product(range(len(ALPHA)), repeat=ln):
            n += 1
            if n % nparts != part:
                continue
            case = {'kids': ['ed25519-0', 'ecdsa-p256-0'], 'ops': [['add_uid', 0, 3, 0, 0, 0, 0, 0]] + [ALPHA[i] for i in seq]}
            if n % 3 == 0:
                # every third sequence starts from a key written by another implementation (see certmachine.QUIRKS / FOREIGN_SUBS)
                case['start'] = [[4, [n % 7], n % 4], None]
            res, applied = certmachine.run_ops(case, certmachine.inv_c15)
            classify(rec, case, res, applied)
    rec.exhaustive['all sequences of length <= %d over a 9-operation alphabet' % L] = True
    return rec


def run(tier, seed):
    tasks = [('systematic', (p, 6, 3 if tier == 'quick' else 4)) for p in range(6)]
    n, maxops, bsec = (100, 12, 100) if tier == 'quick' else (800, 30, 1200)
    for i in range(16 if tier == 'quick' else 26):
        tasks.append(('shard', (seed, i, n, maxops, bsec)))
    return harness.pmap('vpgpy.props.c15', 'dispatch', tasks)


def dispatch(task):
    return globals()[task[0]](task[1])


def replay(case):
    return certmachine.run_ops(case, certmachine.inv_c15)[0]


def minimise(finding):
    return certmachine.minimise_ops(finding['case'], certmachine.inv_c15, (finding['clause'], finding['cause']))
