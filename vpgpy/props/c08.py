"""C08 -- packet codec: own output re-parses byte-exactly; foreign input normalises once.

(A) objects built through the public API (signatures of every kind with options, keys of every algorithm protected
    or not, messages of every shape, encrypted messages; also after protect / added subpacket / edited user id):
    the reference splits the export and each packet p followed by trailing data t must parse consuming exactly
    len(p), leave t intact, and serialise to p.
(B) well-formed packets built by the reference (all tags, old/new headers with every length-of-length, partial
    and indeterminate lengths, known and unknown versions, every key algorithm x S2K usage x specifier, every
    signature/attribute subpacket, arbitrary literal metadata, invalid UTF-8 user ids, nested compressed packets):
    if PGPy accepts, re-serialising gives exactly one well-framed packet that is accepted again, carries the same
    field values, and is a fixed point of a further pass."""
import bz2
import zlib

from hypothesis import strategies as st

from .. import harness, keypool, sigkit, keykit, enckit
from ..refpgp import wire, keys as rkeys, sig as rsig, grammar, enc as renc, s2k as rs2k, sym as rsym
from . import c02, c05

RULE = ('(A) Hypothesis draws API-built objects: signatures (24 kinds x option sets of C02), key recipes of C14 (private, public, protected with 4 ciphers), messages of C03 '
        '(literal/compressed/signed/encrypted to keys and passphrases), in-place changes (protect, added unhashed subpacket, edited user id); every packet of every export is '
        're-parsed with 0/1/17 octets of trailing data. (B) Hypothesis draws a reference builder out of 40 (PKESK RSA/ECDH/ElGamal/unknown, signature v4 with generated '
        'subpackets / v3 / unknown version, SKESK, one-pass, public/secret (sub)keys of RSA/DSA/ElGamal/ECDSA/EdDSA/ECDH x usage 0/254/255 x simple/salted/iterated/GNU, '
        'compressed x4 nesting packets, tag 9, marker, literal with arbitrary metadata, trust, user id incl. invalid UTF-8, attribute incl. unknown subpacket, SEIPD, MDC, '
        'unassigned tags) x header form (new 1/2/5, old 1/2/4, partial, indeterminate) and checks acceptance, framing, field values and idempotence. Non-trivial: (A) non-empty '
        'body with trailing data; (B) accepted packet whose first serialisation differs from the input or that uses a non-default header form; distinct by (tag, version, header '
        'form, algorithm/usage, size class).')
RULE += ' Header forms include partial chunks closed by a five-octet length; protected secret-key packets are unprotect()ed in place and must serialise unchanged. Builders also for secret keys of unknown algorithms and in the legacy protection form, empty bodies, unhashed flag subpackets with undefined bits; copies of parsed packets and of built (also encrypted) messages must serialise identically; API values that overflow fixed-width fields are either refused or emit parseable packets; the reference\'s view of every subpacket value is unchanged by re-serialisation.'
RULE += ' Card stubs with an empty serial number; signature objects handed out by verify() (incl. the primary-key binding signature embedded in a subkey binding) are emitted one by one and must each be one well-framed signature packet.'
ASSUMPTIONS = ['refpgp.wire splitter frames packets independently', 'field values are compared through a generic snapshot of the object graph (public and private attributes, except '
               'the header and caches of received octets)', 'packet tag 0 is never generated (RFC 4880: must not be used)']


# ------------------------------------------------------------------------------------------------ (A)
def roundtrip_packet(rec, p, source, case):
    from pgpy.packet.types import Packet
    for trail in (b'', b'\x99', bytes(range(17))):
        buf = bytearray(p.raw + trail)
        try:
            obj = Packet(buf)
            out = bytes(obj.__bytearray__())
        except Exception as e:   # noqa
            rec.finding('own-roundtrip', 'own-packet-rejected/tag%d' % p.tag, case, '%s: %r' % (source, e))
            return
        rec.case(('own', p.tag, p.fmt, str(p.lentype), len(trail), source), len(p.body) > 0 and len(trail) > 0, ['own/tag%d' % p.tag, 'own/source/' + source, 'own/trail%d' % len(trail)],
                 {'source': source, 'tag': p.tag, 'packet_len': len(p.raw), 'trailing': len(trail)})
        if bytes(buf) != trail:
            rec.finding('own-roundtrip', 'consumed-wrong-length/tag%d' % p.tag, case, '%s: %d octets left, %d expected' % (source, len(buf), len(trail)))
        if out != p.raw:
            rec.finding('own-roundtrip', 'reserialises-differently/tag%d' % p.tag, case, '%s: %s.. vs %s..' % (source, out[:16].hex(), p.raw[:16].hex()))
        if len(obj) != len(p.raw):
            rec.finding('own-roundtrip', 'len-differs/tag%d' % p.tag, case, '%s: len() %d, octets %d' % (source, len(obj), len(p.raw)))


def all_packets(blob, depth=0):
    """packets of an export, descending into compressed packets"""
    out = []
    for p in wire.split_packets(blob):
        out.append(p)
        if p.tag == 8 and depth < 3:
            out += all_packets(grammar.decompress(p.body[0], p.body[1:]), depth + 1)
    return out


def eval_own(c, rec):
    import pgpy
    from pgpy.constants import SymmetricKeyAlgorithm, HashAlgorithm
    kind = c['kind']
    blobs = []
    try:
        if kind == 'sig':
            cc = c['sig']
            po = c02.to_pgpy_opts(cc['opts'], cc['label'])
            t = sigkit.make_triple(cc['label'], cc['kid'], cc['halg'], doc=bytes.fromhex(cc['doc']), opts=po, created=cc['created'], uid=cc['uid'])
            sig = t.pg_sig()
            blobs.append(('signature/' + cc['label'], bytes(sig)))
            # in-place change: an unhashed subpacket is added, the header length follows
            sig._signature.subpackets.addnew('Policy', hashed=False, uri='https://example.org/' + 'x' * (cc['created'] % 300))
            sig._signature.update_hlen()
            blobs.append(('signature-grown', bytes(sig)))
            if t.carrier_blob is not None and isinstance(t.carrier_blob, bytes):
                blobs.append(('signed-message', t.carrier_blob))
            # values that do not fit their fixed-width fields (a 150-year expiry, a date after 2106, a trust level above 255): the call may
            # refuse them, but whatever it emits must be a packet that parses back
            import datetime
            for nm, extra, cr in (('expiry-150y', {'expires': datetime.timedelta(days=365 * 150)}, cc['created']),
                                  ('created-2110', {}, 4418064000),
                                  ('trust-300', {'trust': (300, 120)} if cc['label'].startswith('cert') else None, cc['created']),
                                  ('recipient-v5', {'intended_recipients': [pgpy.types.Fingerprint('0123456789ABCDEF' * 4)]}, cc['created']),
                                  ('recipient-odd', {'intended_recipients': [pgpy.types.Fingerprint('0123456789ABCDEF' * 3)]}, cc['created'])):
                if extra is None:
                    continue
                try:
                    t2 = sigkit.make_triple(cc['label'], cc['kid'], cc['halg'], doc=bytes.fromhex(cc['doc']), opts=dict(po, **extra), created=cr, uid=cc['uid'])
                    blobs.append(('signature-with-' + nm, wire.build_packet(2, t2.sig)))
                    rec.note('overflow-value-emitted/' + nm)
                except Exception:   # noqa
                    rec.note('overflow-value-refused/' + nm)
        elif kind == 'key':
            key, model = keykit.build_pgpy(c['recipe'])
            blobs.append(('private-key', bytes(key)))
            blobs.append(('public-key', bytes(key.pubkey)))
            key.protect('pw', SymmetricKeyAlgorithm([7, 9, 3, 13][c['n'] % 4]), HashAlgorithm([8, 2][c['n'] % 2]))
            blobs.append(('protected-key', bytes(key)))
            k2 = pgpy.PGPKey.from_blob(bytes(key.pubkey))[0]
            u = k2.userids[0]
            u._uid.uid = u._uid.uid + ' (edited ' + 'é' * (c['n'] % 200) + ')'
            u._uid.update_hlen()
            blobs.append(('edited-user-id', bytes(k2)))
            # signature objects the verification API hands out are emitted one by one as well (str(sig) / bytes(sig)),
            # also the primary-key binding signature that sits inside a subkey binding signature
            for sk in list(k2.subkeys.values())[:2]:
                res = k2.verify(sk)
                for so in list(res.good_signatures) + list(res.bad_signatures):
                    blobs.append(('handed-out-%s-signature' % so.signature.type.name, bytes(so.signature)))
                    import copy as _cp
                    cpo = _cp.copy(so.signature)
                    blobs.append(('copy-of-handed-out-%s-signature' % so.signature.type.name, bytes(cpo)))
                    # ... and the copy is the same signature: it verifies over the same subject
                    if so not in list(res.good_signatures):
                        continue
                    try:
                        okc = bool(k2.verify(sk, cpo))
                    except Exception as ex:   # noqa
                        okc = repr(ex)
                    if okc is not True:
                        rec.finding('own-roundtrip', 'copy-of-handed-out-signature-does-not-verify/' + so.signature.type.name, c, str(okc))
        else:
            spec = c['msg']
            msg = enckit.build_pgpy_message(spec)
            blobs.append(('message', bytes(msg)))
            # a format marker that does not fit its one-octet field: refused, or a packet that parses back
            for fmt in ('utf8', '', 'tu'):
                try:
                    blobs.append(('message-with-format-%r' % fmt, bytes(pgpy.PGPMessage.new(bytes.fromhex(spec['body'])[:40].decode('latin-1'), format=fmt))))
                    rec.note('overflow-value-emitted/format-%r' % fmt)
                except Exception:   # noqa
                    rec.note('overflow-value-refused/format-%r' % fmt)
            encm, _ = enckit.pgpy_encrypt(msg, c['recips'], c['cipher'])
            blobs.append(('encrypted-message', bytes(encm)))
            # objects derived through copy.copy emit packets as well
            import copy
            blobs.append(('copy-of-message', bytes(copy.copy(msg))))
            blobs.append(('copy-of-encrypted-message', bytes(copy.copy(encm))))
    except Exception as e:   # noqa
        rec.note('own-build-rejected/%s/%s' % (kind, harness.exc_key(e)))
        rec.case(None, False, ('own-build-rejected',))
        return
    for source, blob in blobs:
        try:
            pkts = all_packets(blob)
        except (wire.WireError, zlib.error, OSError) as e:
            rec.finding('own-roundtrip', 'export-not-splittable/' + source, c, str(e))
            continue
        for p in pkts:
            roundtrip_packet(rec, p, source, c)


# ------------------------------------------------------------------------------------------------ (B)
def snap(o, depth=0):
    """generic value snapshot of a packet object (everything but headers and raw-octet caches)"""
    import enum
    import datetime
    if depth > 8:
        return '...'
    if isinstance(o, enum.Enum):
        return '%s.%s' % (type(o).__name__, o.name)
    if isinstance(o, (int, str, bool, float, type(None))):
        return o if not isinstance(o, int) or isinstance(o, bool) else int(o)
    if isinstance(o, (bytes, bytearray)):
        return bytes(o).hex()
    if isinstance(o, datetime.datetime):
        return int(o.timestamp())
    if isinstance(o, datetime.timedelta):
        return o.total_seconds()
    if isinstance(o, dict):
        return {str(k): snap(v, depth + 1) for k, v in o.items()}
    if isinstance(o, (list, tuple, set, frozenset)):
        items = [snap(v, depth + 1) for v in o]
        return sorted(items, key=repr) if isinstance(o, (set, frozenset)) else items
    d = getattr(o, '__dict__', None)
    if d is None:
        return repr(type(o))
    return {'__class__': type(o).__name__, **{k: snap(v, depth + 1) for k, v in d.items() if k not in ('header', '_hashed_raw', '_Signature__parent', '_ParentRef__parent')}}


def sp(t, body, crit=False, form=None):
    return wire.build_subpacket(t, body, crit, form)


def b_pub(kid, tag=6, created=None, version=4):
    b = keypool.public_body(kid, created)
    return tag, (bytes([version]) + b[1:]) if version != 4 else b


def b_sec(kid, tag, usage, kind, cipher, halg):
    if usage == 0:
        return tag, keypool.secret_body(kid)
    spec = rs2k.Spec(kind, halg, b'' if kind == 'simple' else b'SALTsalt', 7 if kind == 'iterated' else None)
    return tag, keypool.secret_body(kid, protect={'usage': usage, 'sym': cipher, 'spec': spec, 'iv': bytes(range(rsym.BLOCK[cipher])), 'passphrase': 'pw'})


def b_elgamal(tag, secret, usage):
    p, g, x = (1 << 1023) + 1155, 5, (1 << 200) + 77
    y = pow(g, x, p)       # the secret belongs to the public part, as in any key a producer writes (unprotect() checks it)
    pub = bytes([4]) + wire.u32(1400000000) + bytes([16]) + wire.mpi_encode(p) + wire.mpi_encode(g) + wire.mpi_encode(y)
    if not secret:
        return tag, pub
    mat = wire.mpi_encode(x)
    if usage == 0:
        return tag, pub + b'\x00' + mat + (sum(mat) & 0xFFFF).to_bytes(2, 'big')
    spec = rs2k.Spec('iterated', 2, b'SALTsalt', 7)
    key = rs2k.derive(spec, 'pw', 16)
    pt = mat + ((__import__('hashlib').sha1(mat).digest()) if usage == 254 else (sum(mat) & 0xFFFF).to_bytes(2, 'big'))
    return tag, pub + bytes([usage, 7]) + rs2k.build_spec(spec) + bytes(16) + rsym.cfb_encrypt(7, key, bytes(16), pt)


def b_sig(a, b, n):
    sec = keypool.ref_secret(['ed25519-0', 'ecdsa-p256-0', 'rsa1024-0', 'dsa1024-0'][a % 4])
    subs = b''
    descr_types = []
    for i in range(n):
        t = (a * 7 + b * 3 + i * 11) % 128
        if t == 2:
            t = 3
        body, cls, must = c05.body_for(t, a + i, b + i)
        if body is None:
            body = sec.pub.keyid if t == 16 else b'\x04' + sec.pub.fingerprint
        forms = c05.legal_forms(len(body) + 1)
        subs += sp(t, body, bool((a + i) % 2), forms[(b + i) % len(forms)])
        descr_types.append(t)
    hashed = sp(2, wire.u32(1600000000 + a)) + subs
    # the unhashed area also carries non-minimal length encodings and unknown subpackets
    unh = sp(16, sec.pub.keyid, form=[None, 5][b % 2]) + (sp(20, b'\x80\0\0\0\0\x01\0\x01kv', form=[None, 5][a % 2]) if b % 2 else b'') + (sp(105, bytes(a % 9)) if a % 3 == 0 else b'')
    if a % 4 == 1:
        # flag-valued subpackets in the unhashed area (RFC 4880 5.13 mentions Features there) with bits / octets PGPy has no names for
        unh += sp(30, b'\x07') + sp(27, bytes([0x03, 0x04])) + sp(23, b'\x81') + sp(30, bytes([0x01, 0x80]))
    return 2, rsig.sign(sec, [0x00, 0x01, 0x02][a % 3], [8, 2, 10][b % 3], ('doc', b'x') if a % 3 < 2 else ('none',), hashed, unh)


def b_literal(a, b):
    fn = [b'', b'f.txt', b'_CONSOLE', 'ünï.txt'.encode(), b'\xff\xfe latin', bytes(range(33, 33 + 200)), b'x' * 255][a % 7]
    fmt = [0x62, 0x74, 0x75, 0x6c, 0x31][b % 5]
    data = [b'', b'text\r\nlines\n', bytes(range(256)), b'\xff' * 700][(a + b) % 4]
    return 11, grammar.build_literal(fmt, fn, [0, 1, 1234567890, (1 << 32) - 1][a % 4], data)


def b_uid(a):
    return 13, [b'', b'Alice <a@example.org>', 'Ünï Çödé'.encode(), b'\xff\xfe invalid \xc3', b'latin-1 \xe9', b'x' * 300, b'a (b) <c> (d) <e>'][a % 7]


def b_ua(a):
    img = sigkit.JPEG
    sub = wire.sub_len_encode(len(img) + 17, [None, 5][a % 2]) + b'\x01' + b'\x10\x00\x01\x01' + bytes(12) + img
    if a % 3 == 1:
        sub += wire.sub_len_encode(6) + bytes([100]) + b'hello'     # private/unknown attribute subpacket
    return 17, sub


def b_compressed(alg, a, b):
    inner = wire.build_packet(*b_literal(a, b)) + (wire.build_packet(*b_uid(a)) if b % 2 else b'')
    if a % 5 == 0:
        inner = wire.build_packet(8, bytes([1]) + grammar.compress(1, inner))
    return 8, bytes([alg]) + grammar.compress(alg, inner)


def b_pkesk(a, b):
    kid = ['rsa1024-0', 'cv25519-0', 'ecdh-p256-0', 'ecdh-p521-0', 'rsa2048-2'][a % 5]
    body = renc.pkesk_build(keypool.ref_public(kid), [9, 7, 2][b % 3], bytes(range([32, 16, 24][b % 3])))
    if b % 4 == 3:
        body = body[:1] + bytes(8) + body[9:]       # wildcard key id
    return 1, body


def b_pkesk_elg(a):
    return 1, b'\x03' + bytes(range(8)) + bytes([16]) + wire.mpi_encode((1 << 1020) + a) + wire.mpi_encode((1 << 1019) + 3)


BUILDERS = {
    'pkesk': lambda a, b: b_pkesk(a, b),
    'pkesk-elgamal': lambda a, b: b_pkesk_elg(a),
    'pkesk-unknown-alg': lambda a, b: (1, b'\x03' + bytes(8) + bytes([99]) + bytes(a % 40)),
    'pkesk-v2': lambda a, b: (1, b'\x02' + bytes(20)),
    'sig-v4': lambda a, b: b_sig(a, b, b % 6),
    'sig-v3': lambda a, b: (2, b'\x03\x05\x00' + wire.u32(1234567890) + bytes(8) + bytes([1, 2]) + b'\xab\xcd' + wire.mpi_encode((1 << 1000) + a)),
    'sig-v5-unknown': lambda a, b: (2, b'\x05' + bytes(a % 60)),
    'sig-unknown-pkalg': lambda a, b: (2, bytes([4, 0, 100 + a % 10, 8]) + wire.u16(6) + sp(2, wire.u32(5)) + wire.u16(0) + b'\x12\x34' + bytes(b % 50)),
    'skesk': lambda a, b: (3, renc.skesk_build([9, 7, 3][a % 3], rs2k.Spec(['iterated', 'salted', 'simple'][b % 3], [8, 2][a % 2], b'' if b % 3 == 2 else b'saltSALT', 200 if b % 3 == 0 else None), 'pw',
                                               bytes(range([32, 16, 16][a % 3])) if a % 2 else None)),
    'skesk-v5-unknown': lambda a, b: (3, b'\x05' + bytes(a % 30)),
    'onepass': lambda a, b: (4, bytes([3, [0, 1][a % 2], [8, 2][b % 2], [1, 17, 19, 22][a % 4]]) + bytes(range(8)) + bytes([[0, 1, 2, 0x80, 0xFF][b % 5]])),
    'onepass-v4-unknown': lambda a, b: (4, b'\x04' + bytes(12)),
    'pubkey': lambda a, b: b_pub(keypool.ids()[a % len(keypool.ids())], 6, [None, 0, (1 << 32) - 1][b % 3]),
    'pubsubkey': lambda a, b: b_pub(keypool.ids()[a % len(keypool.ids())], 14),
    'pubkey-v3-unknown': lambda a, b: (6, b'\x03' + wire.u32(1) + b'\x00\x00\x01' + wire.mpi_encode(1 << 500) + wire.mpi_encode(17)),
    'pubkey-v5-unknown': lambda a, b: (6, b'\x05' + bytes(a % 50)),
    'pubkey-unknown-alg': lambda a, b: (6, b'\x04' + wire.u32(5) + bytes([100]) + bytes(a % 40)),
    'pubkey-elgamal': lambda a, b: b_elgamal(6 if a % 2 else 14, False, 0),
    'seckey': lambda a, b: b_sec(keypool.ids()[a % len(keypool.ids())], 5 if b % 2 else 7, [0, 254, 255, 'legacy'][a % 4], ['iterated', 'salted', 'simple'][b % 3], [7, 9, 3, 2, 13][a % 5], [2, 8, 10, 1][b % 4]),
    'seckey-elgamal': lambda a, b: b_elgamal(5 if a % 2 else 7, True, [0, 254, 255][b % 3]),
    # secret keys of algorithms PGPy does not know (reserved DH 21, private-use 100+): kept as opaque material
    'seckey-unknown-alg': lambda a, b: ([5, 7][a % 2], b'\x04' + wire.u32(1400000000 + b) + bytes([[21, 100, 105, 110][b % 4]]) + wire.mpi_encode((1 << 300) + a) + [b'\x00', b'\xfe\x07\x00\x02', b'\xff\x09\x03\x08saltSALT\x60'][a % 3] + bytes((a + i) & 0xFF for i in range(20 + b % 40))),
    'seckey-gnu-dummy': lambda a, b: (5, rkeys.build_gnu_dummy_body(*(lambda n: (n[0], n[1], n[2], n[4], n[5]))(keypool.numbers(keypool.ids()[a % len(keypool.ids())])), mode=1 + b % 2, serial=bytes(range(16))[:(0, 16, 4, 7, 12)[(b // 2) % 5]], **({'halg': 2, 'sym': 3} if a % 3 == 1 else {}))),
    'compressed-zip': lambda a, b: b_compressed(1, a, b),
    'compressed-zlib': lambda a, b: b_compressed(2, a, b),
    'compressed-bz2': lambda a, b: b_compressed(3, a, b),
    'compressed-none': lambda a, b: b_compressed(0, a, b),
    'sed': lambda a, b: (9, bytes((a + i * 3) & 0xFF for i in range(20 + b % 100))),
    'marker': lambda a, b: (10, b'PGP'),
    'literal': lambda a, b: b_literal(a, b),
    'trust': lambda a, b: (12, bytes([a % 256, b % 256])),
    'userid': lambda a, b: b_uid(a),
    'attribute': lambda a, b: b_ua(a),
    'seipd': lambda a, b: (18, b'\x01' + bytes((b + i) & 0xFF for i in range(30 + a % 100))),
    'seipd-v2-unknown': lambda a, b: (18, b'\x02' + bytes(a % 60)),
    'mdc': lambda a, b: (19, bytes((a + i) & 0xFF for i in range(20))),
    # empty bodies (an old-format indeterminate length then announces nothing at all)
    'userid-empty': lambda a, b: (13, b''),
    'unassigned-15-empty': lambda a, b: (15, b''),
    'trust-empty': lambda a, b: (12, b''),
    'unassigned-15': lambda a, b: (15, bytes(a % 300)),
    'unassigned-16': lambda a, b: (16, bytes(range(b % 200))),
    'unassigned-20': lambda a, b: (20, b'\x01' + bytes(a % 100)),
    'private-60': lambda a, b: (60, bytes(range(a % 256))),
    'private-63': lambda a, b: (63, b''),
}
HDRS = ['new', 'new2', 'new5', 'old0', 'old1', 'old2', 'partial', 'partial5', 'indeterminate']


def frame(tag, body, hdr):
    try:
        if hdr == 'new':
            return wire.build_packet(tag, body)
        if hdr == 'new2':
            return wire.build_packet(tag, body, 'new', 2) if 192 <= len(body) < 8384 else wire.build_packet(tag, body, 'new', 5)
        if hdr == 'new5':
            return wire.build_packet(tag, body, 'new', 5)
        if hdr.startswith('old'):
            if tag > 15:
                return wire.build_packet(tag, body, 'new', 5)
            lt = int(hdr[3])
            if len(body) >= 1 << (8 * (1, 2, 4)[lt]):
                lt = 2
            return wire.build_packet(tag, body, 'old', lt)
        if hdr == 'partial':
            if len(body) < 3:
                return wire.build_packet(tag, body)
            first = 1 << min(9, (len(body) - 1).bit_length() - 1)
            return wire.build_packet(tag, body, 'new', chunks=[first, len(body) - first])
        if hdr == 'partial5':
            # two partial chunks, then the last part announced with a five-octet length
            if len(body) < 4:
                return wire.build_packet(tag, body, 'new', 5)
            first = 1 << min(8, (len(body) - 2).bit_length() - 2)
            return wire.build_packet(tag, body, 'new', 5, chunks=[first, first, len(body) - 2 * first])
        if tag > 15:
            return wire.build_packet(tag, body)
        return wire.build_packet(tag, body, 'old', 3)
    except wire.WireError:
        return wire.build_packet(tag, body)


def eval_foreign(c, rec):
    from pgpy.packet.types import Packet
    name = c['builder']
    try:
        tag, body = BUILDERS[name](c['a'], c['b'])
    except (wire.WireError, KeyError) as e:
        rec.note('builder-skip/%s' % name)
        return
    raw = frame(tag, body, c['hdr'])
    ref = wire.split_packets(raw)
    if len(ref) != 1 or ref[0].body != body:
        raise harness.HarnessError('reference framing of its own packet failed')
    size_class = 'empty' if not body else '<192' if len(body) < 192 else '<8384' if len(body) < 8384 else 'big'
    try:
        p1 = Packet(bytearray(raw))
        out1 = bytes(p1.__bytearray__())
    except Exception as e:   # noqa
        rec.case(('foreign', name, c['hdr'], size_class, 'rejected'), False, ['foreign/' + name, 'hdr/' + c['hdr'], 'outcome/rejected'])
        rec.note('rejected/%s' % name)
        return
    default_hdr = c['hdr'] == 'new' or (c['hdr'] == 'new2' and 192 <= len(body) < 8384)
    rec.case(('foreign', name, c['hdr'], size_class, c['a'] % 7, c['b'] % 5), (out1 != raw) or not default_hdr,
             ['foreign/' + name, 'hdr/' + c['hdr'], 'outcome/accepted', 'normalised/%s' % (out1 != raw), 'class/' + type(p1).__name__],
             {'builder': name, 'tag': tag, 'header': c['hdr'], 'body_len': len(body), 'pgpy_class': type(p1).__name__, 'normalised': out1 != raw})
    case = dict(c)
    # (i) exactly one well-framed packet
    try:
        q = wire.split_packets(out1)
        if len(q) != 1 or q[0].tag != tag:
            rec.finding('foreign-roundtrip', 'not-one-packet/%s' % name, case, '%d packets, tag %s' % (len(q), [x.tag for x in q]))
            return
    except wire.WireError as e:
        rec.finding('foreign-roundtrip', 'badly-framed/%s/%s' % (name, 'old' if c['hdr'].startswith('old') or c['hdr'] == 'indeterminate' else 'new'), case, '%s: %s' % (out1[:8].hex(), e))
        return
    if len(p1) != len(out1):
        rec.finding('foreign-roundtrip', 'len-differs/%s' % name, case, 'len() %d, octets %d' % (len(p1), len(out1)))
    # (ii) accepted again, (iii) same field values, (iv) fixed point
    try:
        buf = bytearray(out1 + b'\x77\x88')
        p2 = Packet(buf)
        out2 = bytes(p2.__bytearray__())
        if bytes(buf) != b'\x77\x88':
            rec.finding('foreign-roundtrip', 'second-parse-consumes-wrong-length/%s' % name, case, '%d left' % len(buf))
    except Exception as e:   # noqa
        rec.finding('foreign-roundtrip', 'own-serialisation-rejected/%s' % name, case, repr(e))
        return
    if type(p1) is not type(p2):
        rec.finding('foreign-roundtrip', 'class-changes/%s' % name, case, '%s -> %s' % (type(p1).__name__, type(p2).__name__))
    s1, s2 = snap(p1), snap(p2)
    if s1 != s2:
        diff = [k for k in set(s1) | set(s2) if s1.get(k) != s2.get(k)] if isinstance(s1, dict) and isinstance(s2, dict) else ['?']
        rec.finding('foreign-roundtrip', 'field-values-change/%s/%s' % (name, '+'.join(sorted(diff))[:40]), case, 'fields that differ after re-serialisation: %r' % diff)
    if out2 != out1:
        rec.finding('foreign-roundtrip', 'not-a-fixed-point/%s' % name, case, '%s.. vs %s..' % (out1[:20].hex(), out2[:20].hex()))
    # signature subpackets: the reference's view of (type, critical, value) of every subpacket, hashed and unhashed, is unchanged
    if tag == 2 and body[:1] == b'\x04' and type(p1).__name__ == 'SignatureV4':
        try:
            s0, s1 = rsig.parse_sig_body(body), rsig.parse_sig_body(q[0].body)
            v0 = [(x.type, x.critical, x.body) for x in list(s0.hashed) + [None] + list(s0.unhashed) if x is None or x.type != 32] if False else \
                [('h', x.type, x.critical, x.body) for x in s0.hashed] + [('u', x.type, x.critical, x.body) for x in s0.unhashed if x.type != 32]
            v1 = [('h', x.type, x.critical, x.body) for x in s1.hashed] + [('u', x.type, x.critical, x.body) for x in s1.unhashed if x.type != 32]
            if v0 != v1:
                diff = sorted({a[1] for a in set(v0) ^ set(v1)})
                rec.finding('foreign-roundtrip', 'subpacket-values-change/types-%s' % '+'.join(str(t_) for t_ in diff)[:30], case,
                            'subpackets whose value differs after re-serialisation: %r' % [(a[0], a[1], a[3].hex()[:16]) for a in sorted(set(v0) ^ set(v1))][:6])
        except (wire.WireError, IndexError):
            pass
    # one-pass signature: zero = another one follows, any other value = the last one (RFC 4880 5.4); the meaning survives re-serialisation
    if tag == 4 and body[:1] == b'\x03' and len(body) == 13 and len(q[0].body) == 13:
        if (body[12] != 0) != (q[0].body[12] != 0) or body[:12] != q[0].body[:12]:
            rec.finding('foreign-roundtrip', 'field-values-change/onepass/last-flag', case, 'flag octet %02x written back as %02x' % (body[12], q[0].body[12]))
    # a copy of the parsed packet object (copies are what derived keys, copied messages and copied signatures are made of) emits the same octets
    try:
        import copy
        outc = bytes(copy.copy(p1).__bytearray__())
        if outc != out1:
            rec.finding('foreign-roundtrip', 'copy-serialises-differently/%s' % name, case, '%s.. vs %s..' % (out1[:20].hex(), outc[:20].hex()))
    except Exception as e:   # noqa
        rec.finding('foreign-roundtrip', 'copy-exception/%s/%s' % (name, harness.exc_key(e)), case, repr(e))
    # in-place change of state: a protected secret key that has been unlocked still serialises to the same (protected) packet
    if name in ('seckey', 'seckey-elgamal') and body[len(rkeys.parse_public_body(body)[0].body)] != 0 and hasattr(p1, 'unprotect'):
        try:
            p1.unprotect('pw')
            out3 = bytes(p1.__bytearray__())
            if out3 != out1:
                rec.finding('foreign-roundtrip', 'unlocked-secret-key-serialises-differently/usage%d' % body[len(rkeys.parse_public_body(body)[0].body)], case,
                            '%d octets locked, %d octets after unprotect()' % (len(out1), len(out3)))
            rec.note('seckey-unprotected-then-serialised')
        except NotImplementedError:
            rec.note('seckey-unprotect-unsupported')
        except Exception as e:   # noqa
            rec.finding('foreign-roundtrip', 'unprotect-exception/%s' % harness.exc_key(e), case, repr(e))
    # the body must survive normalisation for packets PGPy treats as opaque or re-emits verbatim
    if q[0].body != body and type(p1).__name__ in ('Opaque', 'SKEData', 'IntegrityProtectedSKEDataV1', 'Marker', 'MDC'):
        rec.finding('foreign-roundtrip', 'opaque-body-changes/%s' % name, case, '')


def case_strategy():
    own_sig = c02.case_strategy(True).map(lambda c: {'kind': 'sig', 'sig': c})
    own_key = st.fixed_dictionaries({'kind': st.just('key'), 'recipe': keykit.recipe_strategy(max_uids=3, max_subs=2), 'n': st.integers(0, 400)})
    own_msg = st.fixed_dictionaries({'kind': st.just('msg'), 'msg': enckit.msg_strategy(False), 'recips': enckit.recipient_strategy(True, True), 'cipher': st.sampled_from(enckit.CIPHERS)})
    foreign = st.fixed_dictionaries({'kind': st.just('foreign'), 'builder': st.sampled_from(sorted(BUILDERS)), 'a': st.integers(0, 1000), 'b': st.integers(0, 1000), 'hdr': st.sampled_from(HDRS)})
    return st.one_of(own_sig, own_key, own_msg, foreign, foreign, foreign)


def evaluate(c, rec):
    if c['kind'] == 'foreign':
        eval_foreign(c, rec)
    else:
        eval_own(c, rec)


def shard(arg):
    seed, idx, n, bsec = arg
    rec = harness.Rec()
    harness.run_given(case_strategy(), lambda c: evaluate(c, rec), harness.derive_seed('C08', seed, idx), n, harness.Budget(bsec), rec)
    return rec


def w_cover(arg):
    """every builder x every header form x a few parameter variants"""
    part, nparts = arg
    rec = harness.Rec()
    i = 0
    for name in sorted(BUILDERS):
        for hdr in HDRS:
            for v in range(4):
                i += 1
                if i % nparts != part:
                    continue
                eval_foreign({'kind': 'foreign', 'builder': name, 'a': v * 13 + i, 'b': v * 7 + i // 3, 'hdr': hdr}, rec)
    return rec


def w_growth(arg):
    """in-place mutation of objects parsed from old-format (GnuPG-style) input: an edited user id and a signature that
    gains an unhashed subpacket, growing the body to just below, exactly at and just above each width boundary"""
    import pgpy
    rec = harness.Rec()
    base = keypool.ref_cert('ed25519-0', uids=('A',), secret=False, fmt='old')
    for target in (254, 255, 256, 257, 300, 65534, 65535, 65536, 65537):
        case = {'kind': 'growth', 'target': target}
        try:
            k = pgpy.PGPKey.from_blob(base)[0]
            u = k.userids[0]
            u._uid.uid = 'u' * target
            u._uid.update_hlen()
            out = bytes(k)
            pk = wire.split_packets(out)
            ok = [p.tag for p in pk] == [6, 13, 2] and pk[1].body == b'u' * target
        except Exception as e:   # noqa
            ok = False
            out = repr(e).encode()
        rec.case(('growth-uid', target), True, ['own/growth-uid'], {'edit': 'user id of an old-format key grown to %d octets' % target})
        if not ok:
            rec.finding('own-roundtrip', 'grown-old-format-packet-badly-framed/userid', case, out[:24].hex() if isinstance(out, bytes) else str(out))
        # signature packet parsed from an old-format header, unhashed subpacket added
        try:
            sigp = [p for p in wire.split_packets(base) if p.tag == 2][0]
            sig = pgpy.PGPSignature.from_blob(sigp.raw)
            cur = len(sigp.body)
            pad = target - cur - 3 if target - cur - 3 < 191 else target - cur - 4
            if target > 60000 or pad < 1:
                continue
            sig._signature.subpackets.addnew('Policy', hashed=False, uri='p' * pad)
            sig._signature.update_hlen()
            out = bytes(sig)
            q = wire.split_packets(out)
            ok = len(q) == 1 and q[0].tag == 2 and pgpy.PGPSignature.from_blob(out) is not None
            rec.case(('growth-sig', target, len(q[0].body) if ok else 0), True, ['own/growth-sig'], {'edit': 'old-format signature grown to %d octets' % (len(q[0].body) if ok else -1)})
        except Exception as e:   # noqa
            ok = False
            out = repr(e).encode()
        if not ok:
            rec.finding('own-roundtrip', 'grown-old-format-packet-badly-framed/signature', case, out[:24].hex())
    return rec


def w_fixtures(arg):
    """the repository's packet fixtures as foreign seeds"""
    import glob
    import os
    from pgpy.packet.types import Packet
    rec = harness.Rec()
    for f in sorted(glob.glob(os.path.join(harness.PGPY_ROOT, 'tests', 'testdata', 'packets', '*'))):
        raw = open(f, 'rb').read()
        try:
            ref = wire.split_packets(raw)
        except wire.WireError:
            continue
        if len(ref) != 1:
            continue
        name = 'fixture/' + os.path.basename(f)
        try:
            p1 = Packet(bytearray(raw))
            out1 = bytes(p1.__bytearray__())
            p2 = Packet(bytearray(out1))
            out2 = bytes(p2.__bytearray__())
        except Exception as e:   # noqa
            rec.note('rejected/' + name)
            continue
        rec.case(('fixture', os.path.basename(f)), True, ['foreign/fixture'], {'fixture': os.path.basename(f), 'normalised': out1 != raw})
        if out1 != out2 or snap(p1) != snap(p2):
            rec.finding('foreign-roundtrip', 'not-a-fixed-point/' + name, {'kind': 'fixture', 'file': os.path.basename(f)}, '')
        try:
            q = wire.split_packets(out1)
            if len(q) != 1 or q[0].tag != ref[0].tag:
                rec.finding('foreign-roundtrip', 'not-one-packet/' + name, {'kind': 'fixture', 'file': os.path.basename(f)}, '')
        except wire.WireError as e:
            rec.finding('foreign-roundtrip', 'badly-framed/' + name, {'kind': 'fixture', 'file': os.path.basename(f)}, str(e))
    return rec


def run(tier, seed):
    tasks = [('w_cover', (p, 6)) for p in range(6)] + [('w_fixtures', None), ('w_growth', None)]
    n, bsec = (45, 80) if tier == 'quick' else (1500, 1200)
    for i in range(9 if tier == 'quick' else 25):
        tasks.append(('shard', (seed, i, n, bsec)))
    return harness.pmap('vpgpy.props.c08', 'dispatch', tasks)


def dispatch(task):
    return globals()[task[0]](task[1])


def replay(case):
    rec = harness.Rec()
    if case.get('kind') == 'fixture':
        rec = w_fixtures(None)
    elif case.get('kind') == 'growth':
        rec = w_growth(None)
    else:
        c = dict(case)
        if c['kind'] == 'sig' and 'trust' in c['sig'].get('opts', {}):
            c['sig'] = dict(c['sig'], opts=dict(c['sig']['opts'], trust=tuple(c['sig']['opts']['trust'])))
        evaluate(c, rec)
    return [(f['clause'], f['cause'], f['detail']) for f in rec.findings]
