"""C07 -- the public export never carries or exercises secret material.

The key-management state machine of vpgpy/certmachine.py is driven through generated histories; after every
step the freshly derived public twin (locked, and while unlocked), a public key loaded from its export, and
every *earlier* twin that is still referenced are inspected: only tags 6/14/13/17/2, label PUBLIC KEY BLOCK,
no big-endian (or native Curve25519) encoding of any secret integer from the key pool anywhere in the binary or
de-armored export, same fingerprint / identities / subkeys / exportable signatures as the private key (fresh
twins), and every private operation refused."""
from .. import harness, certmachine

RULE = ('same history generator as C15 (two keys of 6 algorithms, each starting either as a bare secret key from the pool or as a complete secret key written by the reference the way another implementation would -- hashed areas with 5-/2-octet subpacket lengths, private-use subpackets, unknown flag bits, ECDH subkeys with non-default KDF parameters --, identities, photos, 7 kinds of subkey, third-party certifications, revocations, protect / unlock, '
        'copy, export/import, and "keep a public twin" steps whose result is re-inspected after every later operation); per step: packet tags and armor label of '
        'the fresh twin (taken locked and inside an unlock scope), byte search for every secret integer of the pooled keys (known independently of PGPy), equality of '
        'fingerprint, components and signature multiset with the private key, refusal of sign/certify/revoke/revoker/decrypt/add_subkey/bind on every public object. '
        'Non-trivial: twin of a key with >=1 subkey taken while unlocked or after >=2 steps, or an early twin re-inspected after a later addition; distinct by '
        'operation-name sequence.')
ASSUMPTIONS = ['secret integers are those of the committed key pool (made with cryptography, not PGPy)', 'for twins taken earlier the no-secret and refusal clauses are asserted, and that the twin shows a state the private key has had (then or now, not a mixture) '
               '-- the statement does not say that they track later additions']


def _start_classes(case):
    out = []
    for fs in case.get('start') or []:
        if fs is not None:
            out.append('start/foreign-key/quirk%d' % (fs[2] % len(certmachine.QUIRKS)))
            out += ['start/foreign-subkey/' + certmachine.FOREIGN_SUBS[i % len(certmachine.FOREIGN_SUBS)] for i in fs[1][:2]]
    return out or ['start/bare-secret-key']


def classify(rec, case, res, applied):
    names = tuple(applied)
    held_then_more = 'pubkey' in names[:-1]
    nt = held_then_more or ('add_subkey' in names and ('protect' in names or len(names) >= 3))
    rec.case(('hist', 'foreign' if case.get('start') else 'bare') + names, bool(nt), ['len/%d' % min(len(names), 12)] + ['op/' + n for n in set(names)] + (['early-twin-reinspected'] if held_then_more else []) + _start_classes(case),
             {'keys': case['kids'], 'applied_operations': list(names)})
    for clause, cause, det in res:
        rec.finding(clause, cause, case, det)


def shard(arg):
    seed, idx, n, maxops, bsec = arg
    rec = harness.Rec()

    def body(case):
        res, applied = certmachine.run_ops(case, certmachine.inv_c07)
        classify(rec, case, res, applied)
    harness.run_given(certmachine.history_strategy(maxops), body, harness.derive_seed('C07', seed, idx), n, harness.Budget(bsec), rec)
    return rec


SCRIPTS = [
    [['add_uid', 0, 0, 0, 0, 0, 0, 0], ['pubkey', 0], ['add_subkey', 0, 0, 0], ['add_subkey', 0, 1, 0], ['add_uid', 0, 1, 0, 0, 0, 0, 1], ['protect', 0, 0], ['pubkey', 0], ['add_subkey', 0, 2, 0]],
    [['add_uid', 0, 2, 0, 0, 0, 0, 0], ['add_subkey', 0, 5, 0], ['protect', 0, 1], ['pubkey', 0], ['export_import', 0, 1], ['pubkey', 0], ['add_subkey', 0, 3, 0], ['copy', 0], ['add_subkey', 0, 6, 0]],
]


def scripted(arg):
    rec = harness.Rec()
    for kid in certmachine.PRIMARIES:
        for sc in SCRIPTS:
            case = {'kids': [kid, 'ed25519-2' if kid != 'ed25519-2' else 'ed25519-0'], 'ops': sc}
            res, applied = certmachine.run_ops(case, certmachine.inv_c07)
            classify(rec, case, res, applied)
        # the same key as another implementation would have written it (foreign hashed areas, ECDH subkeys with other KDF parameters)
        for q in range(len(certmachine.QUIRKS)):
            case = {'kids': [kid, 'ed25519-2' if kid != 'ed25519-2' else 'ed25519-0'], 'start': [[q, [q, q + 3], q], None],
                    'ops': [['pubkey', 0], ['add_uid', 0, 5, 0, 0, 0, 0, 1], ['copy', 0], ['protect', 0, 0], ['pubkey', 0], ['export_import', 0, q]]}
            res, applied = certmachine.run_ops(case, certmachine.inv_c07)
            classify(rec, case, res, applied)
    return rec


def run(tier, seed):
    tasks = [('scripted', None)]
    n, maxops, bsec = (40, 10, 100) if tier == 'quick' else (500, 25, 1200)
    for i in range(15 if tier == 'quick' else 30):
        tasks.append(('shard', (seed, i, n, maxops, bsec)))
    return harness.pmap('vpgpy.props.c07', 'dispatch', tasks)


def dispatch(task):
    return globals()[task[0]](task[1])


def replay(case):
    return certmachine.run_ops(case, certmachine.inv_c07)[0]


def minimise(finding):
    return certmachine.minimise_ops(finding['case'], certmachine.inv_c07, (finding['clause'], finding['cause']))
