"""C09 -- primitive wire codecs are exact over their whole domain.

Finite sub-domains are enumerated completely (itertools + process pool); the oracle is refpgp.wire's
independent arithmetic.  Sub-domains: new-format lengths, old-format lengths, partial body lengths,
subpacket lengths, MPIs, four-octet timestamps, S2K coded counts, and growth/shrink of a parsed packet's
body across every width boundary."""
import itertools

from .. import harness
from ..refpgp import wire, keys as rkeys, sig as rsig
from .. import keypool

RULE = ('complete enumeration of: every body length 0..70000 (+ boundaries to 2^32-1) in each new-format form '
        '(decode) and shortest-form encode; every old-format length type x length 0..70000 (+ boundaries); all partial '
        'chunkings with <=3 power-of-two chunks (2^0..2^12) x final-length forms plus random longer chains; every '
        'subpacket length 1..70000 in each RFC form; every integer bit length 0..4200 x 4 bit patterns as MPI; timestamp '
        'boundaries and a stride sweep of 0..2^32-1 through key/signature/literal/expiry fields; all 256 S2K counts; '
        'parse-then-grow/shrink across each width boundary. A value is non-trivial when it lies within 2 of a width '
        'boundary, or is any growth/partial/MPI/timestamp case; distinct by (sub-domain, value, form).')
RULE += " MPIs are also decoded from zero-padded encodings (declared bit count 1..31 above the value's) and their re-encoding must decode back to the value and be consumed exactly."
RULE += ' Values just beyond a field (lengths >= 2^32, old-format widths, integers of more than 65535 bits) must be refused by the encoders.'
ASSUMPTIONS = ['refpgp.wire implements RFC 4880 4.2 / 5.2.3.1 / 3.2 / 3.7.1.3 arithmetic correctly (self-tested against '
               'the RFC examples)', 'bodies above 70000 octets are exercised at header level only (no multi-gigabyte bodies)']

NEW_BOUNDS = [0, 1, 190, 191, 192, 193, 8382, 8383, 8384, 8385, 65535, 65536, 65537, 70000, (1 << 24) - 1, 1 << 24,
              (1 << 31) - 1, 1 << 31, (1 << 32) - 2, (1 << 32) - 1]
OLD_BOUNDS = [0, 1, 254, 255, 256, 257, 65534, 65535, 65536, 65537, (1 << 24), (1 << 32) - 1]
SUB_BOUNDS = [1, 2, 190, 191, 192, 193, 8383, 8384, 8385, 16318, 16319, 16320, 16321, 65535, 65536, 70000]


def near(n, bounds, d=2):
    return any(abs(n - b) <= d for b in bounds)


def _types():
    from pgpy.packet.types import Header, MPI, Packet, Opaque
    from pgpy.packet.subpackets.types import Header as SubHeader
    return Header, MPI, Packet, Opaque, SubHeader


# ------------------------------------------------------------------ sub-domain workers
def w_newlen(arg):
    lo, hi = arg
    Header, MPI, Packet, Opaque, SubHeader = _types()
    rec = harness.Rec()
    values = list(range(lo, hi)) + ([b for b in NEW_BOUNDS if b > 70000] if lo == 0 else [])
    for n in values:
        nt = near(n, [192, 8384, 65536, 1 << 32])
        # encode: shortest form
        want = wire.new_len_encode(n)
        try:
            got = bytes(Header.encode_length(n, True, 1))
        except Exception as e:   # noqa
            got = harness.exc_key(e)
        rec.case(('newenc', n), nt, ('new-encode',), {'sub': 'new-encode', 'n': n, 'octets': want.hex()})
        if got != want:
            rec.finding('newlen-encode', 'shortest-form/%s' % ('lt192' if n < 192 else 'lt8384' if n < 8384 else 'five'),
                        {'kind': 'newenc', 'n': n}, 'got %r want %s' % (got, want.hex()))
        # decode of every legal form, and header-level re-serialisation
        for form in (1, 2, 5):
            try:
                enc = wire.new_len_encode(n, form)
            except wire.WireError:
                continue
            raw = bytearray(bytes([0xC0 | 61]) + enc)
            h = Header()
            try:
                h.parse(raw)
                dec = h.length
                rest = len(raw)
                out = bytes(h.__bytearray__())
                hl = len(h)
                ll = h.llen
            except Exception as e:   # noqa
                rec.finding('newlen-decode', 'exception/' + harness.exc_key(e), {'kind': 'newdec', 'n': n, 'form': form}, repr(e))
                continue
            rec.case(('newdec', n, form), nt or form != wire.shortest_new_form(n), ('new-decode-form%d' % form,),
                     {'sub': 'new-decode', 'n': n, 'form': form, 'octets': enc.hex()})
            if dec != n or rest != 0:
                rec.finding('newlen-decode', 'value/form%d' % form, {'kind': 'newdec', 'n': n, 'form': form}, 'decoded %r rest %d' % (dec, rest))
            exp = bytes([0xC0 | 61]) + want
            if out != exp or hl != len(exp) or ll != len(want):
                rec.finding('newlen-reencode', 'header/form%d' % form, {'kind': 'newdec', 'n': n, 'form': form},
                            'out %s len %d llen %d want %s' % (out.hex(), hl, ll, exp.hex()))
    rec.exhaustive['new-format lengths 0..70000 x forms'] = True
    return rec


def w_oldlen(arg):
    lo, hi = arg
    Header, MPI, Packet, Opaque, SubHeader = _types()
    rec = harness.Rec()
    values = list(range(lo, hi)) + ([b for b in OLD_BOUNDS if b > 70000] if lo == 0 else [])
    for n in values:
        nt = near(n, [256, 65536])
        for lt in (0, 1, 2):
            w = (1, 2, 4)[lt]
            if n >= 1 << (8 * w):
                continue
            raw = bytearray(bytes([0x80 | (13 << 2) | lt]) + n.to_bytes(w, 'big'))
            exp = bytes(raw)
            h = Header()
            try:
                h.parse(raw)
                ok = (h.length == n and len(raw) == 0 and int(h.tag) == 13)
                out = bytes(h.__bytearray__())
                hl = len(h)
            except Exception as e:   # noqa
                rec.finding('oldlen-decode', 'exception/' + harness.exc_key(e), {'kind': 'olddec', 'n': n, 'lt': lt}, repr(e))
                continue
            rec.case(('olddec', n, lt), nt or lt != (0 if n < 256 else 1 if n < 65536 else 2), ('old-decode-lt%d' % lt,),
                     {'sub': 'old-decode', 'n': n, 'lentype': lt, 'octets': exp.hex()})
            if not ok:
                rec.finding('oldlen-decode', 'value/lt%d' % lt, {'kind': 'olddec', 'n': n, 'lt': lt}, 'decoded %r' % (h.length,))
            # what is written must announce the width written and decode (by the reference) to n
            try:
                p = _old_hdr_decode(out)
            except Exception as e:   # noqa
                p = repr(e)
            if p != (13, n, len(out)) or hl != len(out):
                rec.finding('oldlen-reencode', 'header/lt%d' % lt, {'kind': 'olddec', 'n': n, 'lt': lt}, 'out %s -> %r' % (out.hex(), p))
        # encode helper
        for lt, w in ((0, 1), (1, 2), (2, 4)):
            if n < 1 << (8 * w):
                got = bytes(Header.encode_length(n, False, w))
                if got != n.to_bytes(w, 'big'):
                    rec.finding('oldlen-encode', 'width%d' % w, {'kind': 'oldenc', 'n': n, 'w': w}, got.hex())
    rec.exhaustive['old-format lengths 0..70000 x length types'] = True
    return rec


def w_beyond(arg):
    """values just beyond what a field can hold: "never emitting a length field narrower than the value needs" --
    the encoder refuses, it does not write octets that decode to something else"""
    Header, MPI, Packet, Opaque, SubHeader = _types()
    rec = harness.Rec()
    for n in (1 << 32, (1 << 32) + 1, (1 << 32) + 192, 1 << 40):
        for nhf, w in ((True, 1), (False, 4)):
            case = {'kind': 'beyond', 'n': n, 'new': nhf}
            rec.case(('beyond', n, nhf), True, ('beyond-the-field/%s' % ('new' if nhf else 'old'),), {'sub': 'unrepresentable length', 'n': n, 'format': 'new' if nhf else 'old'})
            try:
                got = bytes(Header.encode_length(n, nhf, w))
            except (ValueError, OverflowError):
                continue
            except Exception as e:   # noqa
                rec.finding('beyond', 'exception/' + harness.exc_key(e), case, repr(e))
                continue
            rec.finding('beyond', 'length-written-in-a-field-too-narrow/%s' % ('new' if nhf else 'old'), case, got.hex())
    for w, n in ((1, 256), (2, 65536), (2, 70000)):
        case = {'kind': 'beyond', 'n': n, 'new': False, 'w': w}
        rec.case(('beyond-old', n, w), True, ('beyond-the-field/old',), {'sub': 'unrepresentable length', 'n': n, 'format': 'old', 'width': w})
        try:
            got = bytes(Header.encode_length(n, False, w))
        except (ValueError, OverflowError):
            continue
        rec.finding('beyond', 'length-written-in-a-field-too-narrow/old', case, got.hex())
    for bits in (65536, 65537, 70000):
        v = 1 << (bits - 1)
        case = {'kind': 'beyond', 'bits': bits}
        rec.case(('beyond-mpi', bits), True, ('beyond-the-field/mpi',), {'sub': 'integer with more than 65535 bits', 'bits': bits})
        try:
            got = bytes(MPI(v).to_mpibytes())
        except (ValueError, OverflowError):
            continue
        except Exception as e:   # noqa
            rec.finding('beyond', 'exception/' + harness.exc_key(e), case, repr(e))
            continue
        try:
            back, used = wire.mpi_decode(got, 0)
        except Exception:   # noqa
            back, used = None, 0
        if back != v or used != len(got):
            rec.finding('beyond', 'bit-count-written-in-a-field-too-narrow/mpi', case, got[:4].hex())
    return rec


def _old_hdr_decode(b):
    t = b[0]
    if t & 0xC0 != 0x80:
        raise ValueError('not old format')
    lt = t & 3
    w = (1, 2, 4, 0)[lt]
    if len(b) != 1 + w:
        raise ValueError('announces %d length octets, %d written' % (w, len(b) - 1))
    return ((t >> 2) & 15, int.from_bytes(b[1:], 'big'), len(b))


def w_sublen(arg):
    lo, hi = arg
    Header, MPI, Packet, Opaque, SubHeader = _types()
    rec = harness.Rec()
    for n in range(max(1, lo), hi):
        nt = near(n, [192, 8384, 16320, 65536])
        want = wire.sub_len_encode(n)
        for form in (1, 2, 5):
            try:
                enc = wire.sub_len_encode(n, form)
            except wire.WireError:
                continue
            for tbyte in ((100, 0xE4) if (nt or n % 997 == 0) else (100,)):
                raw = bytearray(enc + bytes([tbyte]))
                h = SubHeader()
                try:
                    h.parse(raw)
                    ok = (h.length == n and h.typeid == (tbyte & 0x7F) and h.critical == bool(tbyte & 0x80) and len(raw) == 0)
                    out = bytes(h.__bytearray__())
                except Exception as e:   # noqa
                    cause = 'first-octet-224-254-taken-as-partial' if form == 2 and enc[0] >= 224 else 'exception/' + harness.exc_key(e)
                    rec.finding('sublen-decode', cause, {'kind': 'subdec', 'n': n, 'form': form, 't': tbyte}, repr(e))
                    continue
                rec.case(('subdec', n, form, tbyte), nt or len(enc) != len(want), ('sub-decode-form%d' % form,),
                         {'sub': 'subpacket-length', 'n': n, 'form': form, 'octets': enc.hex()})
                if not ok:
                    cause = 'first-octet-224-254-taken-as-partial' if form == 2 and enc[0] >= 224 else 'value/form%d' % form
                    rec.finding('sublen-decode', cause, {'kind': 'subdec', 'n': n, 'form': form, 't': tbyte},
                                'decoded len=%r type=%r crit=%r rest=%d' % (h.length, h.typeid, h.critical, len(raw)))
                    continue
                # re-encode must decode (by the reference) to the same n and type octet
                try:
                    v, used = wire.sub_len_decode(out, 0)
                    good = (v == n and out[used] == tbyte and len(out) == used + 1)
                except Exception:   # noqa
                    good = False
                if not good:
                    rec.finding('sublen-reencode', 'form%d' % form, {'kind': 'subdec', 'n': n, 'form': form, 't': tbyte}, out.hex())
    rec.exhaustive['subpacket lengths 1..70000 x forms'] = True
    return rec


def _patterns(bits):
    if bits == 0:
        return [0]
    top = 1 << (bits - 1)
    alt = int('10' * ((bits + 1) // 2), 2) >> (((bits + 1) // 2) * 2 - bits) | top
    return sorted({top, (1 << bits) - 1, alt, top | 1, top | (top >> 1) | 0x5A5A5A & (top - 1)})


def w_mpi(arg):
    lo, hi = arg
    Header, MPI, Packet, Opaque, SubHeader = _types()
    rec = harness.Rec()
    for bits in range(lo, hi):
        for v in _patterns(bits):
            want = wire.mpi_encode(v)
            case = {'kind': 'mpi', 'v': '%x' % v}
            try:
                m = MPI(v)
                enc = bytes(m.to_mpibytes())
                blen = m.byte_length()
                ln = len(m)
            except Exception as e:   # noqa
                rec.finding('mpi-encode', 'exception/' + harness.exc_key(e), case, repr(e))
                continue
            rec.case(('mpi', v), True, ('mpi-bits-%s' % ('0' if bits == 0 else 'mod8=%d' % (bits % 8)),),
                     {'sub': 'mpi', 'bits': bits, 'octets': want[:10].hex() + ('..' if len(want) > 10 else '')})
            if enc != want or ln != len(enc) or blen != len(want) - 2:
                rec.finding('mpi-encode', 'zero' if v == 0 else 'value', case, 'enc %s len() %d byte_length %d want %s' % (enc[:12].hex(), ln, blen, want[:12].hex()))
            # decode of the reference encoding followed by trailing data
            buf = bytearray(want + b'\xAA\xBB')
            try:
                d = MPI(buf)
                if int(d) != v or bytes(buf) != b'\xAA\xBB':
                    rec.finding('mpi-decode', 'value', case, 'decoded %x rest %s' % (int(d), bytes(buf).hex()))
            except Exception as e:   # noqa
                rec.finding('mpi-decode', 'exception/' + harness.exc_key(e), case, repr(e))
            # an encoding by a fixed-width / zero-padding writer: the declared bit count exceeds the value's (RFC 4880 3.2 fixes the
            # octet count from the declared bits, so such octets have a definite value); what PGPy writes for the integer it read
            # must again decode to that value and be consumed exactly, with two more fields following
            if bits % 7 == 0 or bits < 40:
                for extra in (1, 7, 8, 9, 16, 31):
                    dbits = bits + extra
                    if dbits > 65535:
                        continue
                    raw = dbits.to_bytes(2, 'big') + v.to_bytes((dbits + 7) // 8, 'big')
                    buf = bytearray(raw + want + b'\xAA')
                    ncase = {'kind': 'mpi-padded', 'v': '%x' % v, 'declared': dbits}
                    try:
                        d = MPI(buf)
                        enc2 = bytes(d.to_mpibytes())
                        rest_ok = bytes(buf) == want + b'\xAA'
                        v2, used, _ = wire.mpi_decode(enc2 + want + b'\xAA')
                    except Exception as e:   # noqa
                        rec.finding('mpi-padded', 'exception/' + harness.exc_key(e), ncase, repr(e))
                        continue
                    rec.case(('mpi-padded', v, dbits), True, ('mpi-padded/extra-octets=%d' % (((dbits + 7) // 8) - ((bits + 7) // 8)),),
                             {'sub': 'mpi', 'bits': bits, 'declared_bits': dbits})
                    if int(d) != v or not rest_ok:
                        rec.finding('mpi-padded', 'decode', ncase, 'decoded %x, consumed exactly: %s' % (int(d), rest_ok))
                    elif v2 != v or used != len(enc2) or len(d) != len(enc2):
                        rec.finding('mpi-padded', 're-encode', ncase, 'read %s, wrote %s (len() %d), which a reader takes as %x using %d octets' % (
                            raw[:8].hex(), enc2[:8].hex(), len(d), v2, used))
    rec.exhaustive['MPI bit lengths 0..4200 x patterns'] = True
    return rec


def w_count(arg):
    from pgpy.packet.fields import String2Key
    rec = harness.Rec()
    for c in range(256):
        s = String2Key()
        s.count = c
        want = (16 + (c & 15)) << ((c >> 4) + 6)
        rec.case(('count', c), True, ('s2k-count',), {'sub': 's2k-count', 'coded': c, 'octets': want})
        if s.count != want:
            rec.finding('s2k-count', 'decode', {'kind': 'count', 'c': c}, '%r != %d' % (s.count, want))
        # stored form: usage 254, AES128, iterated, sha256, salt, count, iv
        raw = bytes([254, 7, 3, 8]) + b'SALTSALT' + bytes([c]) + bytes(16)
        s2 = String2Key()
        buf = bytearray(raw + b'\x99')
        s2.parse(buf)
        if s2.count != want or bytes(s2.__bytearray__()) != raw or bytes(buf) != b'\x99':
            rec.finding('s2k-count', 'stored-form', {'kind': 'count', 'c': c}, 'parse/serialise mismatch')
    rec.exhaustive['S2K coded counts 0..255'] = True
    return rec


TS_BOUNDS = [0, 1, 2, 59, 60, 86399, 86400, 86401, (1 << 31) - 2, (1 << 31) - 1, 1 << 31, (1 << 31) + 1, (1 << 32) - 2, (1 << 32) - 1,
             951782400, 951868800, 1078099200, 4107542400 - 1, 4107542400, 1583020800, 2147483647, 2147483648, 1700000000]


def w_time(arg):
    lo, hi, stride = arg
    from pgpy.packet.types import Packet
    from pgpy.packet.subpackets import Signature as SigSP
    import pgpy
    rec = harness.Rec()
    vals = list(range(lo, hi, stride)) + (TS_BOUNDS if lo == 0 else [])
    kid = 'ed25519-0'
    for t in vals:
        nt = True
        case = {'kind': 'time', 't': t}
        rec.case(('time', t), nt, ('timestamp',), {'sub': 'timestamp', 't': t})
        # key creation time: packet round trip + fingerprint
        body = keypool.public_body(kid, created=t)
        raw = wire.build_packet(6, body)
        try:
            p = Packet(bytearray(raw))
            out = bytes(p.__bytearray__())
            import calendar
            got = calendar.timegm(p.created.utctimetuple())
            fp = str(p.fingerprint)
        except Exception as e:   # noqa
            rec.finding('timestamp', 'key-created/exception/' + harness.exc_key(e), case, repr(e))
            continue
        if out != raw or got != t:
            rec.finding('timestamp', 'key-created', case, 'out %s got %r' % (out[:12].hex(), got))
        if fp != rkeys.parse_public_body(body)[0].fingerprint.hex().upper():
            rec.finding('timestamp', 'key-fingerprint', case, fp)
        # signature creation time / expiry subpackets (types 2, 3, 9)
        for typ in (2, 3, 9):
            sp = wire.build_subpacket(typ, wire.u32(t))
            try:
                o = SigSP(bytearray(sp))
                out = bytes(o.__bytearray__())
                if typ == 2:
                    val = calendar.timegm(o.created.utctimetuple())
                else:
                    val = int(o.expires.total_seconds())
            except Exception as e:   # noqa
                rec.finding('timestamp', 'subpacket%d/exception/%s' % (typ, harness.exc_key(e)), case, repr(e))
                continue
            if out != sp or val != t:
                rec.finding('timestamp', 'subpacket%d' % typ, case, 'out %s val %r' % (out.hex(), val))
        # literal data time
        lit = wire.build_packet(11, b'b\x00' + wire.u32(t) + b'x')
        try:
            p = Packet(bytearray(lit))
            out = bytes(p.__bytearray__())
            val = calendar.timegm(p.mtime.utctimetuple())
        except Exception as e:   # noqa
            rec.finding('timestamp', 'literal/exception/' + harness.exc_key(e), case, repr(e))
            continue
        if out != lit or val != t:
            rec.finding('timestamp', 'literal', case, 'out %s val %r' % (out.hex(), val))
    return rec


def w_partial(arg):
    """all chunkings with <= 3 partial chunks of 2^0..2^maxe followed by a final part in each legal form"""
    maxe, nchunks, shard, nshards, seed = arg
    from pgpy.packet.types import Packet
    rec = harness.Rec()
    finals = [0, 1, 5, 191, 192, 193, 300]
    combos = []
    for k in range(1, nchunks + 1):
        for es in itertools.product(range(0, maxe + 1), repeat=k):
            for fin in finals:
                for form in (1, 2, 5):
                    try:
                        wire.new_len_encode(fin, form)
                    except wire.WireError:
                        continue
                    combos.append((es, fin, form))
    for i, (es, fin, form) in enumerate(combos):
        if i % nshards != shard:
            continue
        _partial_case(rec, Packet, [1 << e for e in es], fin, form, i)
    # random longer chains up to 2^17 octets (seeded, inside the deterministic shard)
    import random
    rnd = random.Random(harness.derive_seed('c09-partial', seed, shard))
    for j in range(40):
        chain = []
        tot = 0
        while tot < (1 << 17) and len(chain) < 12 and rnd.random() < 0.85:
            e = rnd.randrange(0, 17)
            chain.append(1 << e)
            tot += 1 << e
        if not chain:
            chain = [512]
        _partial_case(rec, Packet, chain, rnd.choice(finals + [8383, 8384, 70000]), None, ('r', shard, j))
    rec.exhaustive['partial chunkings <=%d chunks of 2^0..2^%d x final forms' % (nchunks, maxe)] = True
    return rec


def _partial_case(rec, Packet, chunks, fin, form, ident):
    total = sum(chunks) + fin
    body = bytes((i * 7 + 3) & 0xFF for i in range(total))
    out = bytearray([0xC0 | 61])
    pos = 0
    for c in chunks:
        out.append(224 + c.bit_length() - 1)
        out += body[pos:pos + c]
        pos += c
    out += wire.new_len_encode(fin, form)
    out += body[pos:]
    raw = bytes(out)
    trail = b'\xCA\xFE'
    case = {'kind': 'partial', 'chunks': chunks, 'final': fin, 'form': form}
    rec.case(('partial', tuple(chunks), fin, form), True, ('partial-%dchunks' % len(chunks),),
             {'sub': 'partial', 'chunks': chunks, 'final': fin, 'final_form': form})
    # the reference splitter must agree with our construction first
    assert wire.split_packets(raw)[0].body == body
    buf = bytearray(raw + trail)
    try:
        p = Packet(buf)
        payload = bytes(p.payload)
        rest = bytes(buf)
        ser = bytes(p.__bytearray__())
    except Exception as e:   # noqa
        rec.finding('partial-decode', 'exception/' + harness.exc_key(e), case, repr(e))
        return
    if payload != body or rest != trail or p.header.length != total:
        rec.finding('partial-decode', 'body', case, 'len %d want %d rest %s hdrlen %r' % (len(payload), total, rest[:8].hex(), p.header.length))
        return
    try:
        q = wire.split_packets(ser)
        good = len(q) == 1 and q[0].body == body and q[0].tag == 61
    except Exception:   # noqa
        good = False
    if not good:
        rec.finding('partial-reencode', 'body', case, ser[:16].hex())


GROW_BOUNDS_OLD = [(255, 256), (65535, 65536)]
GROW_BOUNDS_NEW = [(191, 192), (8383, 8384)]


def w_growth(arg):
    """parse a packet with body length a, change the body to length b across a width boundary (both
    directions), update_hlen, export; the reference must read exactly one packet with the new body."""
    from pgpy.packet.types import Packet
    from pgpy.packet.packets import UserID, LiteralData
    rec = harness.Rec()
    sizes = sorted({0, 1, 100, 190, 191, 192, 193, 254, 255, 256, 257, 300, 8383, 8384, 8385, 65535, 65536, 65537, 70000})
    for fmt, tag in (('old', 15), ('new', 61), ('old', 13), ('new', 13), ('old', 11), ('new', 11)):
        for a in sizes:
            for b in sizes:
                if a == b:
                    continue
                for lt in ((None,) if fmt == 'new' else (None, 2)):
                    if tag == 11 and (a < 6 or b < 6):
                        continue
                    if tag == 11:
                        body_a = b'b\x00\x00\x00\x00\x00' + b'a' * (a - 6)
                    else:
                        body_a = b'a' * a
                    raw = wire.build_packet(tag, body_a, fmt, lt)
                    case = {'kind': 'growth', 'fmt': fmt, 'tag': tag, 'a': a, 'b': b, 'lt': lt}
                    try:
                        p = Packet(bytearray(raw))
                        if tag == 13:
                            p.uid = 'b' * b
                            newbody = b'b' * b
                        elif tag == 11:
                            p._contents = bytearray(b'c' * (b - 6))
                            newbody = b'b\x00\x00\x00\x00\x00' + b'c' * (b - 6)
                        else:
                            p.payload = bytearray(b'b' * b)
                            newbody = b'b' * b
                        p.update_hlen()
                        ser = bytes(p.__bytearray__())
                    except Exception as e:   # noqa
                        rec.finding('growth', 'exception/' + harness.exc_key(e), case, repr(e))
                        continue
                    rec.case(('growth', fmt, tag, a, b, lt), True, ('growth-%s-%s' % (fmt, 'grow' if b > a else 'shrink'),),
                             {'sub': 'growth', 'format': fmt, 'tag': tag, 'from': a, 'to': b})
                    try:
                        q = wire.split_packets(ser)
                        good = len(q) == 1 and q[0].body == newbody and q[0].tag == tag
                        if good and fmt == 'new':
                            good = q[0].lentype == wire.shortest_new_form(b)
                    except Exception as e:   # noqa
                        good = False
                    if not good:
                        cause = 'old-header-width-not-recomputed' if fmt == 'old' else 'new-header'
                        rec.finding('growth', cause, case, 'exported header %s' % ser[:6].hex())
    return rec


def run(tier, seed):
    tasks = []
    step = 70001 // 8 + 1
    for lo in range(0, 70001, step):
        tasks.append(('w_newlen', (lo, min(70001, lo + step))))
        tasks.append(('w_oldlen', (lo, min(70001, lo + step))))
        tasks.append(('w_sublen', (lo, min(70001, lo + step))))
    for lo in range(0, 4201, 300):
        tasks.append(('w_mpi', (lo, min(4201, lo + 300))))
    tasks.append(('w_count', None))
    nts = 40000 if tier == 'quick' else 400000
    stride = ((1 << 32) // nts) | 1
    span = (1 << 32) // 8
    for i in range(8):
        tasks.append(('w_time', (i * span + (seed % stride if i else 0), (i + 1) * span, stride)))
    maxe, nch = (6, 3) if tier == 'quick' else (12, 3)
    for sh in range(8):
        tasks.append(('w_partial', (maxe, nch, sh, 8, seed)))
    tasks.append(('w_growth', None))
    tasks.append(('w_beyond', None))
    rec = harness.pmap('vpgpy.props.c09', 'dispatch', tasks)
    return rec


def dispatch(task):
    name, arg = task
    return globals()[name](arg)


def replay(case):
    k = case['kind']
    if k in ('newenc', 'newdec'):
        r = w_newlen((case['n'], case['n'] + 1))
    elif k in ('olddec', 'oldenc'):
        r = w_oldlen((case['n'], case['n'] + 1))
    elif k == 'beyond':
        r = w_beyond(None)
    elif k == 'subdec':
        r = w_sublen((case['n'], case['n'] + 1))
    elif k in ('mpi', 'mpi-padded'):
        b = int(case['v'], 16).bit_length()
        r = w_mpi((b, b + 1))
    elif k == 'count':
        r = w_count(None)
    elif k == 'time':
        r = w_time((case['t'], case['t'] + 1, 1))
    elif k == 'partial':
        from pgpy.packet.types import Packet
        r = harness.Rec()
        _partial_case(r, Packet, case['chunks'], case['final'], case['form'], 0)
    elif k == 'growth':
        r = w_growth(None)
        r.findings = [f for f in r.findings if all(f['case'].get(x) == case.get(x) for x in ('fmt', 'tag'))]
    else:
        raise harness.HarnessError('unknown case kind %r' % k)
    return [(f['clause'], f['cause'], f['detail']) for f in r.findings]
