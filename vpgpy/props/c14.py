"""C14 -- transferable keys survive export and import with their structure intact.

The recipe is the model: which signature (by packet body) is attached to which component, and whether it is
exportable.  Keys are built through PGPy's API and, in foreign layout (old headers, interleaved trust packets,
other orderings), by the reference signer; exports are parsed by grammar position by the reference."""
import copy

from hypothesis import strategies as st

from .. import harness, keypool, keykit
from ..refpgp import wire, keys as rkeys, sig as rsig, grammar, armor

RULE = ('Hypothesis draws key recipes: primary of 7 algorithms/curves, 1-4 user ids (UTF-8, parentheses) and 0-2 photo attributes, each with self-'
        'signature, optional re-certification, 0-3 third-party certifications (4 certifiers, 4 levels, exportable unset/true/false) and optional '
        'revocation, 0-2 direct-key signatures, designated revoker, third-party direct signature (exportable or local), 0-3 subkeys of 7 kinds with '
        'binding (+embedded 0x19), optional re-binding and revocation, key revocation; creation times from {0,0,0,1,2,60} s so that ties are common; '
        'built via the API or by the reference in foreign layout (old headers / trust packets / reversed identity order); public and private, binary '
        'and armored; concatenations of 2-3 keys. Checked: reference parse of the export finds exactly the exportable part of the model at the '
        'right grammar positions; import gives same fingerprint, key material, identities, per-component signature multisets; every signature '
        'verifies (PGPy + reference, third-party ones with their certifier); local signatures and only those are missing; copy exports identically. '
        'Non-trivial: >=2 identities and >=1 third-party/revocation signature, or >=2 signatures sharing a timestamp, or a concatenation.')
RULE += ' Foreign layouts additionally use hashed areas with five-octet subpacket lengths / private-use subpackets / unknown flag bits and secret packets protected with salted, simple or iterated S2K; key packet bodies of an unchanged foreign key must be exported as imported; copy of the private key and twin of the copy export identically. Concatenations may repeat a certificate (A, B, A); trust packets of 2, 6 and 12 octets; user attributes with five-octet subpacket lengths and non-zero reserved octets; GnuPG stubs among the secret packets.'
RULE += ' Concatenations also as armored blocks joined as text, with marker packets before and between the certificates, and with a certificate of an unsupported key version (v3, v5, v6; user id, signature and subkey behind it) in the middle, which must leave its neighbours unchanged.'
ASSUMPTIONS = ['component order in the export is not asserted (PGPy orders identities by its own rule); attachment and multisets are',
               'refpgp.grammar parses by grammar position (signatures attach to the preceding key / user id / attribute / subkey)']


def case_strategy():
    return st.fixed_dictionaries({
        'mode': st.sampled_from(['api', 'api', 'ref']),
        'recipe': keykit.recipe_strategy(),
        'layout': st.integers(0, 31),
        'secret': st.booleans(),
        'armored': st.booleans(),
        'concat': st.lists(keykit.recipe_strategy(max_uids=2, max_subs=1), max_size=2),
    })


def shape(r):
    n3 = sum(len(u['certs']) for u in r['uids'] + r['uas'])
    nrev = sum(1 for u in r['uids'] + r['uas'] if u['revoked']) + sum(1 for s in r['subkeys'] if s['revoked']) + int(r['revoked'])
    times = [u['t'] for u in r['uids'] + r['uas']] + [c['t'] for u in r['uids'] + r['uas'] for c in u['certs']] + list(r['direct'])
    ties = len(times) - len(set(times))
    return n3, nrev, ties


def compare_views(rec, c, clause, got, want, what):
    got, want = keykit.drop_empty(got), keykit.drop_empty(want)
    if got == want:
        return True
    for comp in sorted(set(got) | set(want), key=repr):
        g, w = got.get(comp, []), want.get(comp, [])
        if g != w:
            kind = comp if isinstance(comp, str) else comp[0]
            missing = [x for x in w if x not in g]
            extra = [x for x in g if x not in w]
            types = sorted({'%02x' % b[1] for b in missing + extra})
            cause = '%s/%s%s/sigtypes-%s' % (what, kind, '/missing' if missing and not extra else '/extra' if extra and not missing else '/moved', '+'.join(types))
            rec.finding(clause, cause, c, '%s: component %r has %d signatures, model %d' % (what, comp if isinstance(comp, str) else (comp[0], comp[1][:30]), len(g), len(w)))
    return False


def check_export(rec, c, key, model, secret, armored, tag):
    """reference-side and PGPy-side checks of one export of `key`"""
    import pgpy
    try:
        obj = key if secret else key.pubkey
        blob = bytes(obj)
        text = str(obj)
    except Exception as e:   # noqa
        rec.finding('export', 'exception/%s/%s' % (tag, harness.exc_key(e)), c, repr(e))
        return None
    try:
        ab = armor.read_blocks(text)[0]
        if ab.data != blob or ab.label != ('PRIVATE KEY BLOCK' if secret else 'PUBLIC KEY BLOCK'):
            rec.finding('export', 'armor-vs-binary/' + tag, c, ab.label)
        views = keykit.ref_view(blob)
    except wire.WireError as e:
        rec.finding('export', 'reference-cannot-parse/' + tag, c, str(e))
        return None
    if len(views) != 1:
        rec.finding('export', 'key-count/' + tag, c, '%d keys in the export of one key' % len(views))
        return None
    tk, view = views[0]
    if tk.secret != secret or tk.pub.fingerprint.hex().upper() != model.fpr:
        rec.finding('export', 'primary/' + tag, c, 'secret=%r fpr=%s' % (tk.secret, tk.pub.fingerprint.hex()))
    compare_views(rec, c, 'export', view, model.exported(), tag + '/grammar-position')
    ids = [x.data for x in tk.ids if x.kind == 'uid']
    if sorted(ids) != sorted(model.uids) or sorted(x.data for x in tk.ids if x.kind == 'ua') != sorted(model.uas) or \
            sorted(x.key.fingerprint.hex().upper() for x in tk.subkeys) != sorted(model.subs):
        rec.finding('export', 'components/' + tag, c, 'user ids / attributes / subkeys of the export differ from the model')
    # every exported signature verifies under the reference (third-party ones with their certifier)
    others = [keypool.ref_public(k) for k in keykit.CERTIFIERS]
    for r_ in grammar.check_key_signatures(tk, others):
        if r_['ok'] is False or any(not e['ok'] for e in r_['embedded']):
            rec.finding('export', 'reference-rejects-signature/%s/type%02x' % (tag, r_['sigtype']), c, '%s %s' % (r_['where'], r_['reason']))
    # import (binary or armored)
    try:
        k2, rest = pgpy.PGPKey.from_blob(text if armored else blob)
    except Exception as e:   # noqa
        rec.finding('import', 'exception/%s/%s' % (tag, harness.exc_key(e)), c, repr(e))
        return blob
    if [k for k in rest.values() if k is not k2]:
        rec.finding('import', 'extra-keys/' + tag, c, '%d' % len(rest))
    if str(k2.fingerprint) != model.fpr or k2.is_public == secret:
        rec.finding('import', 'fingerprint-or-half/' + tag, c, '%s public=%r' % (k2.fingerprint, k2.is_public))
    compare_views(rec, c, 'import', keykit.pgpy_view(k2), model.exported(), tag + '/object-structure')
    try:
        if bytes(k2) != blob:
            rec.note('re-export-of-import-differs-in-order/' + tag)      # not asserted: the statement is about content and attachment, not order
        pub = k2.pubkey
        if not pub.verify(k2 if k2.is_public else pub):
            rec.finding('import', 'self-signatures-no-longer-verify/' + tag, c, '')
        # third-party certifications verify under their certifier
        for kid in keykit.CERTIFIERS:
            cert = keypool.pgpy_key(keypool.ref_cert(kid, secret=False))
            try:
                v = cert.verify(pub)
            except Exception as e:   # noqa
                if 'No signatures to verify' in repr(e):
                    continue
                raise
            if not v:
                rec.finding('import', 'third-party-signature-no-longer-verifies/' + tag, c, kid)
    except Exception as e:   # noqa
        rec.finding('import', 'verify-exception/%s/%s' % (tag, harness.exc_key(e)), c, repr(e))
    return blob


def evaluate(c, rec):
    import pgpy
    r = c['recipe']
    n3, nrev, ties = shape(r)
    nid = len(r['uids']) + len(r['uas'])
    nontriv = (nid >= 2 and (n3 or nrev)) or ties >= 1 or bool(c['concat'])
    rec.case((c['mode'], r['primary'], nid, n3, nrev, ties, len(r['subkeys']), len(c['concat']), c['layout'] if c['mode'] == 'ref' else 0, c['secret'], c['armored']), bool(nontriv),
             ['mode/' + c['mode'], 'uids/%d' % len(r['uids']), 'uas/%d' % len(r['uas']), 'thirdparty/%d' % min(n3, 4), 'revocations/%d' % min(nrev, 3), 'ties/%d' % min(ties, 4),
              'subkeys/%d' % len(r['subkeys']), 'concat/%d' % len(c['concat']), 'half/%s' % ('sec' if c['secret'] else 'pub'), 'transport/%s' % ('asc' if c['armored'] else 'bin')],
             {'mode': c['mode'], 'primary': r['primary'], 'uids': [u['text'] for u in r['uids']], 'attributes': len(r['uas']), 'third_party_certs': n3, 'revocations': nrev,
              'timestamp_ties': ties, 'subkeys': [s['kid'] for s in r['subkeys']], 'concatenated_with': len(c['concat']), 'secret': c['secret'], 'armored': c['armored']})
    try:
        if c['mode'] == 'api':
            key, model = keykit.build_pgpy(r)
        else:
            blob0, model = keykit.build_ref(r, c['layout'], secret=True)
            got = pgpy.PGPKey.from_blob(blob0)
            key = got[0]
            if [k for k in got[1].values() if k is not key]:
                rec.finding('import', 'foreign/extra-keys', c, '')
            # everything the foreign key carries must be attached where the grammar puts it (local signatures included: nothing was exported yet)
            compare_views(rec, c, 'import', keykit.pgpy_view(key), model.everything(), 'foreign/object-structure')
    except Exception as e:   # noqa
        rec.finding('build', 'exception/%s/%s' % (c['mode'], harness.exc_key(e)), c, repr(e))
        return
    blob = check_export(rec, c, key, model, c['secret'], c['armored'], c['mode'])
    if c['mode'] == 'ref' and blob is not None:
        # nothing was changed on the foreign key: every key packet and every signature goes out with the body it came in with
        try:
            kb = [p.body for p in wire.split_packets(blob) if p.tag in (5, 6, 7, 14)]
            want = model.secret_bodies if c['secret'] else [rkeys.parse_public_body(b)[0].body for b in model.secret_bodies]
            if kb != want:
                rec.finding('export', 'key-material-differs/ref', c, 'key packet bodies of the export differ from the imported ones at positions %r' % [i for i, (a, b) in enumerate(zip(kb, want)) if a != b])
        except wire.WireError as e:
            rec.finding('export', 'reference-cannot-parse/ref', c, str(e))
    # a copy exports identically
    try:
        obj = key if c['secret'] else key.pubkey
        if bytes(copy.copy(obj)) != bytes(obj):
            rec.finding('copy', 'copy-exports-differently/' + c['mode'], c, '')
        if c['mode'] == 'ref' and bytes(copy.copy(key)) != bytes(key):
            rec.finding('copy', 'copy-of-private-key-exports-differently/ref', c, '')
        if c['mode'] == 'ref' and bytes(copy.copy(key).pubkey) != bytes(key.pubkey):
            rec.finding('copy', 'copy-pubkey-exports-differently', c, '')
        if c['mode'] == 'api' and bytes(copy.copy(key).pubkey) != bytes(key.pubkey):
            rec.finding('copy', 'copy-pubkey-exports-differently', c, '')
    except Exception as e:   # noqa
        rec.finding('copy', 'exception/' + harness.exc_key(e), c, repr(e))
    # concatenation of several keys in one blob
    if c['concat'] and blob is not None:
        blobs = [blob]
        models = [model]
        try:
            for r2 in c['concat']:
                if r2['primary'] == r['primary'] or any(r2['primary'] == x['primary'] for x in c['concat'] if x is not r2):
                    continue
                b2, m2 = keykit.build_ref(r2, c['layout'], secret=c['secret'])
                blobs.append(bytes(pgpy.PGPKey.from_blob(b2)[0]))
                models.append(m2)
            if len(blobs) > 1:
                repeat = bool(c['layout'] & 2)
                if repeat:
                    # the first certificate occurs once more at the end (keyring dumps and merged exports contain such repeats):
                    # every certificate still gets its own components and nobody else's
                    blobs.append(blobs[0])
                foreign = c['layout'] % 3 == 1
                if foreign:
                    # a certificate of a key version that is not implemented (v3 of old keyrings, v5/v6 of later specifications) between
                    # the others: skipping or refusing it is fine, handing its identities and subkeys to the preceding key is not
                    ver = (3, 5, 6)[(c['layout'] // 3) % 3]
                    first_sig = [p for p in wire.split_packets(blobs[0]) if p.tag == 2][0]
                    body = bytes([ver]) + (b'\x4e\x00\x00\x00\x00\x00\x01' + wire.mpi_encode((1 << 1023) | 12345) + wire.mpi_encode(65537) if ver == 3
                                           else b'\x5e\x00\x00\x00\x16\x00\x00\x00\x20' + bytes(range(32)))
                    blobs.insert(1, wire.build_packet(5 if c['secret'] and ver != 3 else 6, body) + wire.build_packet(13, b'Foreign Version <fv@example.org>') + first_sig.raw
                                 + wire.build_packet(14, keypool.ref_public('cv25519-0').body))
                    rec.note('concatenation-with-foreign-version-certificate/v%d' % ver)
                if c['layout'] & 8:
                    # marker packets ("MUST be ignored when received", RFC 4880 5.8) before and between the certificates
                    blobs = [x for b in blobs for x in (wire.build_packet(10, b'PGP'), b)]
                    rec.note('concatenation-with-markers')
                data = b''.join(blobs)
                magic = 'PRIVATE KEY BLOCK' if c['secret'] else 'PUBLIC KEY BLOCK'
                if c['armored'] and c['layout'] & 4:
                    # one armored block per certificate, the blocks concatenated as text (what `cat a.asc b.asc` gives)
                    data = ''.join(armor.write_block(magic, b) for b in blobs)
                    rec.note('concatenation-of-armored-blocks')
                elif c['armored']:
                    data = armor.write_block(magic, data)
                try:
                    first, rest = pgpy.PGPKey.from_blob(data)
                except Exception:   # noqa
                    if not foreign:
                        raise
                    rec.note('concatenation-with-foreign-version-certificate/import-refused')
                    return
                keys = [first] + [k for k in rest.values() if k is not first]
                rec.note('concatenation-with-repeat' if repeat else 'concatenation')
                if (sorted(set(str(k.fingerprint) for k in keys)) if repeat else sorted(str(k.fingerprint) for k in keys)) != sorted(m.fpr for m in models):
                    rec.finding('concat', 'keys-split-wrongly', c, '%r vs %r' % (sorted(str(k.fingerprint) for k in keys), sorted(m.fpr for m in models)))
                else:
                    for k in keys:
                        m = [x for x in models if x.fpr == str(k.fingerprint)][0]
                        compare_views(rec, c, 'concat', keykit.pgpy_view(k), m.exported(), 'concat/object-structure')
        except Exception as e:   # noqa
            rec.finding('concat', 'exception/' + harness.exc_key(e), c, repr(e))


def shard(arg):
    seed, idx, n, bsec = arg
    rec = harness.Rec()
    harness.run_given(case_strategy(), lambda c: evaluate(c, rec), harness.derive_seed('C14', seed, idx), n, harness.Budget(bsec), rec)
    return rec


def scripted(arg):
    """tie-heavy recipes kept from earlier runs (several identities with equal sort keys that later receive signatures)"""
    import json
    import os
    rec = harness.Rec()
    for c in json.load(open(os.path.join(os.path.dirname(os.path.dirname(os.path.abspath(__file__))), 'data', 'c14_scripted.json'))):
        evaluate(c, rec)
        for mode in ('api', 'ref'):
            evaluate(dict(c, mode=mode, secret=not c['secret']), rec)
    return rec


def run(tier, seed):
    n, bsec = (60, 80) if tier == 'quick' else (800, 1200)
    return harness.pmap('vpgpy.props.c14', 'dispatch', [('scripted', None)] + [('shard', (seed, i, n, bsec)) for i in range(15 if tier == 'quick' else 32)])


def dispatch(task):
    return globals()[task[0]](task[1])


def replay(case):
    rec = harness.Rec()
    evaluate(case, rec)
    return [(f['clause'], f['cause'], f['detail']) for f in rec.findings]
