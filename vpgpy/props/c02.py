"""C02 -- signatures conform to RFC 4880: an independent verifier and signer agree with PGPy.

forward:  every signature PGPy makes (all kinds x algorithms x hashes x optional parameters x subjects) is
          (1) re-imported from binary and armor and verified by PGPy, (2) verified by refpgp.sig (own 5.2.4 hash
          input, trailer, left 16 bits, per-algorithm encoding), (3) checked subpacket by subpacket against the
          encoding RFC 4880 5.2.3.x prescribes for the requested option values.
backward: refpgp.sig signs the same kinds of subject; PGPy must verify (detached, inside a key, inside a message)."""
import datetime

from hypothesis import strategies as st

from .. import harness, keypool, sigkit
from ..refpgp import wire, keys as rkeys, sig as rsig, grammar, armor

RULE = ('Hypothesis draws (key from 25 pooled signing keys incl. signing subkeys, hash, kind out of 22, creation time incl. 0 and 2^32-1, subject: '
        'bytes incl. empty / text with LF, CRLF, lone CR / UTF-8 user ids / photo attribute / keys of other algorithms, option set out of: expires, '
        'notation str+bytearray, policy URI, revocable, exportable, trust+regex, key flags incl. empty, cipher/hash/compression preference lists incl. '
        'empty, key expiration, key server, key-server flags, primary, revocation reason+comment, intended recipients, issuer-fingerprint off, with '
        'ASCII and non-ASCII text); direction forward (PGPy signs) or backward (reference signs). Non-trivial: >=1 optional hashed subpacket beyond '
        'creation time / issuer fingerprint, or a non-document kind; distinct by (direction, kind, algorithm, hash, option names, subject class).')
RULE += ' expires= is also given in its datetime form; backward kinds include a 0x30 signature that revokes a direct-key signature.'
ASSUMPTIONS = ['refpgp.sig is an independent implementation of RFC 4880 5.2.3/5.2.4 sharing only hashlib and the cryptography primitives with PGPy',
               'RIPEMD-160 signing is unavailable in this cryptography build for both sides and is reported as rejected configuration']

TEXTS = ['ascii only', 'ünïcödé ☃', 'https://example.org/policy?x=1', '日本語', '']


def opts_strategy():
    txt = st.sampled_from(TEXTS[:4])
    return st.fixed_dictionaries({}, optional={
        'expires': st.sampled_from([1, 3600, 86400 * 365, (1 << 32) - 1]),
        'notation': st.dictionaries(st.sampled_from(['n1@example.org', 'ünï@example.org', 'x']), st.one_of(txt, st.binary(max_size=12).map(lambda b: ['bin', b.hex()])), min_size=1, max_size=2),
        'policy_uri': txt,
        'revocable': st.booleans(),
        'exportable': st.booleans(),
        'trust': st.tuples(st.integers(0, 255), st.sampled_from([0, 60, 120, 255])),
        'regex': st.sampled_from(['<[^>]+[@.]example\\.org>$', 'ünï.*']),
        'usage': st.lists(st.sampled_from([1, 2, 4, 8, 0x20]), max_size=4, unique=True),
        'ciphers': st.lists(st.sampled_from([9, 8, 7, 2, 3]), max_size=4, unique=True),
        'hashes': st.lists(st.sampled_from([8, 10, 9, 2]), max_size=3, unique=True),
        'compression': st.lists(st.sampled_from([2, 1, 3, 0]), max_size=4, unique=True),
        'key_expiration': st.sampled_from([86400, 86400 * 3650, (1 << 32) - 1]),
        'keyserver': txt,
        'keyserver_flags': st.sampled_from([[], [0x80]]),
        'primary': st.booleans(),
        'reason': st.sampled_from([0, 1, 2, 3, 32]),
        'comment': st.sampled_from(TEXTS),
        'intended_recipients': st.lists(st.sampled_from(['ed25519-2', 'ecdsa-p256-1']), min_size=1, max_size=2, unique=True),
        'include_issuer_fingerprint': st.booleans(),
    })


# which options each PGPy entry point takes
COMMON = {'expires', 'notation', 'policy_uri', 'revocable', 'intended_recipients', 'include_issuer_fingerprint'}
SELF_CERT = {'usage', 'ciphers', 'hashes', 'compression', 'key_expiration', 'keyserver', 'keyserver_flags', 'primary', 'exportable'}
THIRD_CERT = {'trust', 'regex', 'exportable', 'usage'}
ALLOWED = {
    'doc': COMMON, 'doc-msg': COMMON, 'msg-u': COMMON, 'msg-t': COMMON, 'text': COMMON, 'text-cleartext': COMMON, 'standalone': COMMON - {'notation'}, 'timestamp': set(),
    'cert-10': COMMON | THIRD_CERT, 'cert-11': COMMON | THIRD_CERT, 'cert-12': COMMON | THIRD_CERT, 'cert-13': COMMON | THIRD_CERT, 'cert-ua': COMMON | THIRD_CERT,
    'cert-self': COMMON | (SELF_CERT - {'usage'}), 'attest': COMMON, 'direct-self': COMMON | (SELF_CERT - {'primary'}), 'direct-3rd': COMMON | THIRD_CERT,
    'revoker': COMMON - {'revocable'}, 'bind': COMMON, 'bind-signing': COMMON, 'rev-key': COMMON, 'rev-subkey': COMMON, 'rev-uid': COMMON,
}


def to_pgpy_opts(o, label, created=None):
    from pgpy.constants import KeyFlags, SymmetricKeyAlgorithm, HashAlgorithm, CompressionAlgorithm, KeyServerPreferences
    allowed = ALLOWED[label]
    out = {}
    for k, v in o.items():
        if k not in allowed:
            continue
        if k == 'expires' and created is not None and v % 2 == 0 and 0 < created and created + v < (1 << 32) - 1:
            # the documented alternative form: the moment of expiry as a datetime (encoded as seconds after the SIGNATURE's creation)
            out[k] = datetime.datetime.fromtimestamp(created + v, datetime.timezone.utc)
        elif k == 'expires' or k == 'key_expiration':
            out[k] = datetime.timedelta(seconds=v)
        elif k == 'notation':
            out[k] = {n: (bytearray(bytes.fromhex(x[1])) if isinstance(x, list) else x) for n, x in v.items()}
        elif k == 'usage':
            out[k] = {KeyFlags(x) for x in v}
        elif k == 'ciphers':
            out[k] = [SymmetricKeyAlgorithm(x) for x in v]
        elif k == 'hashes':
            out[k] = [HashAlgorithm(x) for x in v]
        elif k == 'compression':
            out[k] = [CompressionAlgorithm(x) for x in v]
        elif k == 'keyserver_flags':
            out[k] = {KeyServerPreferences(x) for x in v}
        elif k == 'intended_recipients':
            out[k] = [keypool.pgpy_key(keypool.ref_cert(x, secret=False)) for x in v]
        elif k == 'trust':
            out[k] = tuple(v)
        else:
            out[k] = v
    if 'regex' in out and 'trust' not in out:
        del out['regex']
    return out


def expected_subpackets(o, label, created):
    """type -> list of expected bodies for the options PGPy was asked to encode"""
    exp = {}
    allowed = ALLOWED[label]

    def add(t, b):
        exp.setdefault(t, []).append(bytes(b))
    if created is not None:
        add(2, wire.u32(created))
    for k, v in o.items():
        if k not in allowed:
            continue
        if k == 'expires':
            add(3, wire.u32(v))
        elif k == 'key_expiration':
            add(9, wire.u32(v))
        elif k == 'revocable' and v is False and label != 'revoker':
            add(7, b'\x00')
        elif k == 'exportable':
            add(4, b'\x01' if v else b'\x00')
        elif k == 'trust':
            add(5, bytes([v[0], v[1]]))
            if 'regex' in o and 'regex' in allowed:
                add(6, o['regex'].encode('utf-8') + b'\x00')
        elif k == 'policy_uri':
            add(26, v.encode('utf-8'))
        elif k == 'keyserver':
            add(24, v.encode('utf-8'))
        elif k == 'usage':
            add(27, bytes([sum(v)]))
        elif k == 'ciphers':
            add(11, bytes(v))
        elif k == 'hashes' and v:
            add(21, bytes(v))
        elif k == 'compression':
            add(22, bytes(v))
        elif k == 'keyserver_flags':
            add(23, bytes([sum(v)]))
        elif k == 'primary':
            add(25, b'\x01' if v else b'\x00')
        elif k == 'notation':
            for n, x in v.items():
                nb = n.encode('utf-8')
                vb = bytes.fromhex(x[1]) if isinstance(x, list) else x.encode('utf-8')
                add(20, (b'\x00' if isinstance(x, list) else b'\x80') + b'\x00\x00\x00' + len(nb).to_bytes(2, 'big') + len(vb).to_bytes(2, 'big') + nb + vb)
        elif k == 'intended_recipients':
            for x in v:
                add(35, b'\x04' + keypool.ref_public(x).fingerprint)
    if label.startswith('rev-'):
        add(29, bytes([{'rev-key': 3, 'rev-subkey': 1, 'rev-uid': 32}[label]]) + {'rev-key': b'retired', 'rev-subkey': b'', 'rev-uid': b'no longer valid'}[label])
    return exp


def subject_class(label, doc):
    if label in ('doc', 'doc-msg', 'msg-u', 'msg-t', 'text', 'text-cleartext'):
        return 'empty' if not doc else 'text-eol' if (b'\n' in doc or b'\r' in doc) else 'bytes'
    return label


def eval_forward(c, rec):
    import pgpy
    label = c['label']
    o = c['opts']
    doc = bytes.fromhex(c['doc'])
    subkey = c['subkey'] if label in ('doc', 'doc-msg', 'msg-u', 'msg-t', 'text', 'text-cleartext', 'standalone', 'timestamp') and c['subkey'] != c['kid'] else None
    if label.startswith('text') or label.startswith('msg-'):
        doc = doc.decode('latin-1').encode('utf-8')
    names = sorted(k for k in o if k in ALLOWED[label])
    try:
        po = to_pgpy_opts(o, label, c['created'])
        t = sigkit.make_triple(label, c['kid'], c['halg'], doc=doc, signing_subkey=subkey, opts=po, created=c['created'], uid=c['uid'])
    except Exception as e:   # noqa
        rec.note('rejected-config/%s/%s' % (label, harness.exc_key(e)))
        rec.case(None, False, ('config-rejected/' + label,))
        if not isinstance(e, (NotImplementedError,)) and 'RIPEMD' not in repr(e):
            rec.finding('fwd/sign', 'exception/%s/%s' % (label, harness.exc_key(e)), c, repr(e))
        return
    alg = rkeys.parse_public_body(t.signer_body)[0]
    algname = {1: 'RSA', 17: 'DSA', 19: 'ECDSA-' + str(alg.curve), 22: 'EdDSA'}.get(alg.alg)
    s = rsig.parse_sig_body(t.sig)
    extra = [x for x in s.hashed if x.type not in (2, 33)]
    nontriv = bool(extra) or t.kind not in ('doc',)
    rec.case(('fwd', label, algname, c['halg'], tuple(names), subject_class(label, doc)), nontriv,
             ['dir/fwd', 'kind/' + label, 'alg/' + algname, 'hash/%d' % c['halg'], 'nopts/%d' % len(names)] + ['opt/' + n for n in names],
             {'dir': 'fwd', 'key': c['kid'], 'alg': algname, 'hash': sigkit.HASHES[c['halg']], 'kind': label, 'options': {k: o[k] for k in names}, 'created': c['created'],
              'hashed_subpacket_types': [x.type for x in s.hashed]})
    nonascii = any(isinstance(o.get(k), str) and not o[k].isascii() for k in names) or any(
        not n.isascii() or (isinstance(v, str) and not v.isascii()) for n, v in (o.get('notation') or {}).items() if 'notation' in names)
    reg = 'non-ascii-text-option' if nonascii else 'ascii'
    # (2) independent verifier, left 16 bits included
    if not t.ref_verdict(check_left16=True):
        why = 'left16' if t.ref_verdict(check_left16=False) else 'hash-input-or-encoding'
        rec.finding('fwd/reference-rejects', '%s/%s/%s' % (why, t.kind, reg), c, '%s %s %s' % (label, algname, sigkit.HASHES[c['halg']]))
    # (1) PGPy after re-import (binary and armored)
    v, det = t.pg_verdict()
    if v != 'truthy':
        rec.finding('fwd/reimport', '%s/%s/%s' % (v, t.kind, reg), c, repr(det)[:300])
    try:
        sig2 = pgpy.PGPSignature.from_blob(armor.write_block('SIGNATURE', wire.build_packet(2, t.sig), eol='\r\n'))
        if wire.split_packets(bytes(sig2))[0].body != t.sig:
            rec.finding('fwd/reimport', 'armored-octets-differ/' + reg, c, '')
    except Exception as e:   # noqa
        rec.finding('fwd/reimport', 'armored-exception/' + reg, c, repr(e))
    # a copy of the signature object (what key.pubkey and copy.copy(key) export) is the same signature, octet for octet
    try:
        import copy as _copy
        cp = wire.split_packets(bytes(_copy.copy(t.pg_sig())))[0].body
        if cp != t.sig:
            s2 = rsig.parse_sig_body(cp)
            what = 'left16' if s2.left16 != s.left16 else 'hashed-area' if s2.hashed_prefix != s.hashed_prefix else 'other'
            rec.finding('fwd/copy', 'copy-exports-different-octets/' + what, c, '%s -> %s' % (t.sig[-12:].hex(), cp[-12:].hex()))
    except Exception as ex:   # noqa
        rec.finding('fwd/copy', 'exception/' + harness.exc_key(ex), c, repr(ex))
    # embedded primary-key binding
    if t.embedded:
        e = sigkit.embedded_triple(t)
        if not e.ref_verdict(check_left16=True):
            rec.finding('fwd/reference-rejects', 'embedded-0x19', c, '')
        # (PGPy verifies it with the subkey as a component of the certificate: a binding signature that was given a signature expiration time
        # in the past leaves the subkey without a valid self-signature, which disqualifies it as a verifying key -- C17; the reference verdict stands)
        if not c['opts'].get('expires') and e.pg_verdict()[0] != 'truthy':
            rec.finding('fwd/reimport', 'embedded-0x19', c, '')
    # carried inside a message / key
    if t.carrier_blob is not None:
        try:
            m = pgpy.PGPMessage.from_blob(t.carrier_blob)
            if not t.pg_verifier().verify(m):
                rec.finding('fwd/reimport', 'in-message/' + reg, c, label)
        except Exception as ex:   # noqa
            rec.finding('fwd/reimport', 'in-message-exception/' + reg, c, repr(ex))
    # (3) the encoding of the requested options
    exp = expected_subpackets(o, label, c['created'])
    have = {}
    for x in s.hashed:
        have.setdefault(x.type, []).append(x.body)
    for typ, bodies in exp.items():
        if sorted(have.get(typ, [])) != sorted(bodies):
            rec.finding('fwd/option-encoding', 'subpacket-%d/%s' % (typ, reg if typ in (6, 20, 24, 26, 28, 29) else 'value'), c,
                        'type %d: have %r, RFC encoding of the requested value is %r' % (typ, [b.hex() for b in have.get(typ, [])], [b.hex() for b in bodies]))
    ifp = rsig.issuer_fpr(s)
    want_ifp = o.get('include_issuer_fingerprint', True) if 'include_issuer_fingerprint' in ALLOWED[label] else True
    if (ifp is not None) != bool(want_ifp) and label != 'timestamp':
        rec.finding('fwd/option-encoding', 'issuer-fingerprint-presence', c, 'present=%r wanted=%r' % (ifp is not None, want_ifp))
    if ifp is not None and ifp != rkeys.parse_public_body(t.signer_body)[0].fingerprint:
        rec.finding('fwd/option-encoding', 'issuer-fingerprint-value', c, ifp.hex())
    if rsig.issuer_keyid(s) != rkeys.parse_public_body(t.signer_body)[0].keyid:
        rec.finding('fwd/option-encoding', 'issuer-keyid', c, '')


REF_KINDS = ['doc', 'text', 'standalone', 'timestamp', 'cert-10', 'cert-13', 'cert-ua', 'direct', 'bind', 'rev-key', 'rev-subkey', 'rev-uid', 'pkbind', 'rev-direct']


def eval_backward(c, rec):
    """the reference signs; PGPy must verify"""
    label = c['rlabel']
    kid = c['kid']
    sec = keypool.ref_secret(kid)
    pub = sec.pub
    doc = bytes.fromhex(c['doc'])
    t = sigkit.Triple()
    t.label = 'ref/' + label
    t.signer_cert = keypool.ref_cert(kid, secret=False, subkeys=(('ed25519-1' if kid != 'ed25519-1' else 'ed25519-2', 0x02),))
    t.signer_body = pub.body
    extra = b''
    o = c['opts']
    if 'expires' in o:
        extra += keypool.sp(3, wire.u32(o['expires']))
    if 'policy_uri' in o:
        extra += keypool.sp(26, o['policy_uri'].encode('utf-8'))
    if 'notation' in o:
        for n, x in o['notation'].items():
            nb = n.encode('utf-8')
            vb = bytes.fromhex(x[1]) if isinstance(x, list) else x.encode('utf-8')
            extra += keypool.sp(20, (b'\x00' if isinstance(x, list) else b'\x80') + b'\0\0\0' + len(nb).to_bytes(2, 'big') + len(vb).to_bytes(2, 'big') + nb + vb)
    if 'exportable' in o:
        extra += keypool.sp(4, b'\x01' if o['exportable'] else b'\x00')
    if 'usage' in o:
        extra += keypool.sp(27, bytes([sum(o['usage'])]))
    if 'keyserver' in o:
        extra += keypool.sp(24, o['keyserver'].encode('utf-8'))
    if 'comment' in o and label.startswith('rev'):
        extra += keypool.sp(29, bytes([o.get('reason', 0)]) + o['comment'].encode('utf-8'))
    hashed = keypool.std_hashed(c['created'], pub.fingerprint, extra)
    unh = keypool.sp(16, pub.keyid)
    tgt = 'ed25519-2' if kid != 'ed25519-2' else 'ed25519-0'
    tpub = keypool.ref_public(tgt)
    uid = c['uid'].encode('utf-8') or b'x'
    signer = sec
    if label == 'doc':
        t.kind, t.doc, st_ = 'doc', doc, 0x00
    elif label == 'text':
        t.kind, t.doc, st_ = 'text', doc.decode('latin-1').encode('utf-8'), 0x01
    elif label in ('standalone', 'timestamp'):
        t.kind, st_ = 'none', 0x02 if label == 'standalone' else 0x40
    elif label in ('cert-10', 'cert-13', 'rev-uid'):
        t.kind, t.tprimary, t.uid_kind, t.uid_data = 'cert', tpub.body, 'uid', uid
        st_ = {'cert-10': 0x10, 'cert-13': 0x13, 'rev-uid': 0x30}[label]
    elif label == 'cert-ua':
        ua = wire.sub_len_encode(len(sigkit.JPEG) + 17) + b'\x01' + b'\x10\x00\x01\x01' + bytes(12) + sigkit.JPEG
        t.kind, t.tprimary, t.uid_kind, t.uid_data, st_ = 'cert', tpub.body, 'ua', ua, 0x12
    elif label == 'rev-direct':
        # a 0x30 signature that revokes a direct-key (0x1F) signature on another key: computed over that key alone
        t.kind, t.tprimary, st_ = 'key', tpub.body, 0x30
    elif label in ('direct', 'rev-key'):
        t.kind, t.tprimary, st_ = 'key', (tpub.body if label == 'direct' else pub.body), 0x1F if label == 'direct' else 0x20
    elif label in ('bind', 'rev-subkey'):
        t.kind, t.tprimary, t.tsubkey, st_ = 'subkey', pub.body, keypool.public_body('cv25519-0'), 0x18 if label == 'bind' else 0x28
    else:   # pkbind: issued by the signing subkey over (primary, subkey)
        skid = 'ed25519-1' if kid != 'ed25519-1' else 'ed25519-2'
        signer = keypool.ref_secret(skid)
        hashed = keypool.std_hashed(c['created'], signer.pub.fingerprint, extra)
        unh = keypool.sp(16, signer.pub.keyid)
        t.kind, t.tprimary, t.tsubkey, st_ = 'subkey', pub.body, signer.pub.body, 0x19
        t.signer_body = signer.pub.body
    noissuer = c['created'] % 4 == 3
    if noissuer:
        # RFC 4880 makes only the creation time mandatory: the signer names no issuer at all, or the wild-card key id; the caller hands the
        # signature to the key that made it
        hashed = keypool.sp(2, wire.u32(c['created'])) + extra
        unh = keypool.sp(16, bytes(8)) if c['created'] % 8 == 7 else b''
    try:
        t.sig = rsig.sign(signer, st_, c['halg'], t.ref_subject(), hashed, unh)
    except wire.WireError as e:
        rec.note('rejected-config/ref/%s' % e)
        rec.case(None, False, ('config-rejected/ref',))
        return
    algname = {1: 'RSA', 17: 'DSA', 19: 'ECDSA-' + str(signer.pub.curve), 22: 'EdDSA'}.get(signer.pub.alg)
    names = sorted(o)
    rec.case(('bwd', label, algname, c['halg'], tuple(names)), True, ['dir/bwd', 'kind/ref-' + label, 'alg/' + algname, 'hash/%d' % c['halg']],
             {'dir': 'bwd', 'key': kid, 'alg': algname, 'hash': sigkit.HASHES[c['halg']], 'kind': label, 'options': names, 'created': c['created']})
    if not t.ref_verdict(check_left16=True):
        raise harness.HarnessError('reference does not verify its own signature (%s)' % label)
    v, det = t.pg_verdict()
    if v != 'truthy':
        rec.finding('bwd/pgpy-rejects', ('no-issuer-named/%s' % v) if noissuer else '%s/%s' % (label, v), c, repr(det)[:300])
        return
    if noissuer:
        rec.note('bwd/no-issuer-named')
        return        # (inside a message or a key nothing says which key to try it with)
    # carried inside a message / key built by the reference
    import pgpy
    try:
        if label == 'doc':
            op = bytes([3, 0, c['halg'], signer.pub.alg]) + signer.pub.keyid + b'\x01'
            blob = wire.build_packet(4, op) + wire.build_packet(11, grammar.build_literal(0x62, b'', 0, doc)) + wire.build_packet(2, t.sig)
            if not t.pg_verifier().verify(pgpy.PGPMessage.from_blob(blob)):
                rec.finding('bwd/pgpy-rejects', 'in-message', c, '')
        elif t.kind == 'cert':
            blob = wire.build_packet(6, t.tprimary) + wire.build_packet(13 if t.uid_kind == 'uid' else 17, t.uid_data) + wire.build_packet(2, t.sig)
            if not t.pg_verifier().verify(keypool.pgpy_key(blob)):
                rec.finding('bwd/pgpy-rejects', 'in-key/' + label, c, '')
        elif label in ('direct', 'rev-direct'):
            blob = wire.build_packet(6, t.tprimary) + wire.build_packet(2, t.sig) + wire.build_packet(13, b'Someone <s@example.org>')
            if not t.pg_verifier().verify(keypool.pgpy_key(blob)):
                rec.finding('bwd/pgpy-rejects', 'in-key/' + label, c, '')
    except Exception as e:   # noqa
        rec.finding('bwd/pgpy-rejects', 'carrier-exception/' + label, c, repr(e))


def usable_hashes():
    # RIPEMD-160 is only in the domain when this build of `cryptography` offers it (PGPy signs and verifies through it)
    from cryptography.hazmat.primitives import hashes
    return sigkit.HASH_IDS + ([3] if hasattr(hashes, 'RIPEMD160') else [])


def case_strategy(fast):
    kids = keypool.signing_ids(fast)
    return st.fixed_dictionaries({
        'dir': st.sampled_from(['fwd', 'fwd', 'bwd']),
        'kid': st.sampled_from(kids), 'halg': st.sampled_from(usable_hashes()),
        'label': st.sampled_from(sigkit.KINDS), 'rlabel': st.sampled_from(REF_KINDS),
        'subkey': st.sampled_from([None, 'ed25519-1', 'ecdsa-p256-1']),
        'doc': st.one_of(st.binary(max_size=60), st.sampled_from([b'', b'a\nb\r\nc\rd', b'\xff\x00'])).map(lambda b: b.hex()),
        'uid': st.sampled_from(['Plain Name <p@example.org>', 'Ünï Çödé (cömment) <ü@example.org>', '日本 太郎', 'x']),
        'created': st.sampled_from([0, 1, 1234567890, 1600000000, (1 << 31), (1 << 32) - 1]),
        'opts': opts_strategy(),
    })


def evaluate(c, rec):
    (eval_forward if c['dir'] == 'fwd' else eval_backward)(c, rec)


def shard(arg):
    seed, idx, n, fast, bsec = arg
    rec = harness.Rec()
    harness.run_given(case_strategy(fast), lambda c: evaluate(c, rec), harness.derive_seed('C02', seed, idx), n, harness.Budget(bsec), rec)
    return rec


def matrix(arg):
    part, nparts, kids = arg
    rec = harness.Rec()
    i = 0
    base_opts = [{}, {'expires': 3600, 'notation': {'n1@example.org': 'ascii only'}, 'policy_uri': 'https://example.org/policy?x=1'},
                 {'revocable': False, 'exportable': True, 'usage': [1, 2], 'ciphers': [9, 7], 'hashes': [8, 10], 'compression': [2, 0], 'key_expiration': 86400,
                  'keyserver': 'hkps://keys.example.org', 'keyserver_flags': [0x80], 'primary': True},
                 {'trust': (1, 120), 'regex': '<[^>]+[@.]example\\.org>$', 'exportable': False, 'intended_recipients': ['ed25519-2'], 'include_issuer_fingerprint': False,
                  'comment': 'plain'}]
    for kid in kids:
        for hi, h in enumerate(sigkit.HASH_IDS):
            for li, label in enumerate(sigkit.KINDS):
                i += 1
                if i % nparts != part:
                    continue
                c = {'dir': 'fwd', 'kid': kid, 'halg': h, 'label': label, 'rlabel': REF_KINDS[i % len(REF_KINDS)], 'subkey': None, 'doc': b'matrix\ndoc\r\n'.hex(),
                     'uid': 'Plain Name <p@example.org>', 'created': 1600000000 + i, 'opts': base_opts[(hi + li) % 4]}
                evaluate(c, rec)
                evaluate(dict(c, dir='bwd'), rec)
    return rec


def run(tier, seed):
    fams = ['ed25519-0', 'ecdsa-p256-0', 'dsa1024-0', 'rsa1024-0', 'ecdsa-p521-0', 'ecdsa-k256-0', 'ecdsa-p384-0', 'ed25519-seedlead00']
    if tier != 'quick':
        fams = keypool.signing_ids()
    tasks = []
    for p in range(8):
        tasks.append(('matrix', (p, 8, fams)))
    n, bsec = (150, 70) if tier == 'quick' else (3000, 1200)
    for i in range(16 if tier == 'quick' else 32):
        tasks.append(('shard', (seed, i, n, tier == 'quick' and i % 4 != 0, bsec)))
    return harness.pmap('vpgpy.props.c02', 'dispatch', tasks)


def dispatch(task):
    return globals()[task[0]](task[1])


def replay(case):
    rec = harness.Rec()
    c = dict(case)
    if 'trust' in c.get('opts', {}):
        c['opts'] = dict(c['opts'], trust=tuple(c['opts']['trust']))
    evaluate(c, rec)
    return [(f['clause'], f['cause'], f['detail']) for f in rec.findings]
