"""C16 -- key-usage policy: operations use a component allowed to perform them, or refuse.

Configurations (flag sets on the primary's identities and on 0-3 subkeys incl. empty and re-bound ones) are built by
the reference signer; every operation is tried on every key form with enforcement on and off.  Model: effective
flags = {Certify} + flags of the selected identity's latest self-signature for the primary, flags of the latest
binding for a subkey.  The component *named* in the output must (i) grant the capability (when any component does)
and (ii) be the one that acted: the reference verifies the signature with that component's public key / decrypts
the session-key packet with that component's secret."""
import itertools

from hypothesis import strategies as st

from .. import harness, keypool
from ..refpgp import wire, keys as rkeys, sig as rsig, grammar, enc as renc, s2k as rs2k

RULE = ('configurations: primary (Ed25519 / ECDSA P-256 / RSA-1024) with 1-2 identities carrying flag subsets of {certify, sign, encrypt-communications, '
        'encrypt-storage, authentication} (capabilities the algorithm can perform), 0-3 subkeys (EdDSA/ECDSA/RSA/ECDH on Curve25519, P-256) each with a history of 1-2 '
        'binding signatures carrying flag subsets incl. the empty set; operations sign / certify / revoke / bind / encrypt / decrypt, identity selection user=, '
        'enforcement on/off, key forms public / private / private locked / private unlocked / no identity. A covering set over (operation x form x enforcement) per '
        'configuration plus Hypothesis over configurations. Non-trivial: the acting component is a subkey, or nothing qualifies; distinct by (flag assignment, operation, '
        'form, enforcement).')
RULE += ' A key-flags subpacket in the unhashed area must grant nothing. History worker: one key object through re-certifications, re-bindings, added and removed identities; each sign/certify(user=...) in between is judged against the flags then in force. Keys with the primary in the clear and every subkey locked (a locked subkey must never act); two-octet key flags whose second octet grants nothing.'
RULE += ' Subkey packets without any binding signature grant nothing; form stub-primary (GnuPG stub primary, complete subkeys): a subkey that carries the flag must do the work; with enforcement off and nothing carrying the flag the addressed key must not be refused when its algorithm can do the work; an identity-less key may only certify its own first identity.'
RULE += ' Configurations with a User ID packet without self-signature in front of or behind the certified ones, with key flags only in the unhashed area of a binding signature, and with the primary key\'s flags stated in a direct-key self-signature only.'
ASSUMPTIONS = ['which of several qualifying components is chosen is not asserted', 'any exception counts as a refusal', 'flags that the component\'s algorithm cannot perform '
               '(encrypt on EdDSA, sign on ECDH) are not generated', 'locked forms use a reference-made protected key with a low S2K count (fast to unlock)']

C, S, EC, ES, A = 0x01, 0x02, 0x04, 0x08, 0x20
PRIM = {'ed25519-0': S | A, 'ecdsa-p256-0': S | A, 'rsa1024-0': S | A | EC | ES}
SUBK = {'ed25519-1': S | A, 'ecdsa-p256-1': S | A, 'rsa1024-1': S | EC | ES | A, 'cv25519-0': EC | ES, 'ecdh-p256-0': EC | ES, 'cv25519-1': EC | ES}
PW = 'locked-pw'


def subsets(mask):
    bits = [b for b in (S, EC, ES, A) if mask & b]
    out = []
    for r in range(len(bits) + 1):
        for c in itertools.combinations(bits, r):
            out.append(sum(c))
    return out


def cfg_strategy():
    def uid(kid):
        return st.sampled_from(subsets(PRIM[kid]))

    def sub():
        return st.sampled_from(sorted(SUBK)).flatmap(lambda k: st.tuples(st.just(k), st.lists(st.sampled_from(subsets(SUBK[k]) + [SUBK[k]]), min_size=1, max_size=2)))
    return st.sampled_from(sorted(PRIM)).flatmap(lambda kid: st.fixed_dictionaries({
        'primary': st.just(kid), 'uids': st.lists(uid(kid), min_size=1, max_size=2),
        'subs': st.lists(sub(), max_size=3, unique_by=lambda x: x[0]), 'unhashed': st.sampled_from([False, False, True]), 'wide': st.sampled_from([False, False, True]), 'bare': st.sampled_from([0, 0, 0, 1, 2])}))


def build(cfg, secret, locked=False, with_uids=True, sub_pw=None):
    """certificate made by the reference signer"""
    kid = cfg['primary']
    psec = keypool.ref_secret(kid)
    ppub = psec.pub
    spec = rs2k.Spec('iterated', 8, b'saltSALT', 0)

    def secbody(k):
        if locked == 'stub':
            if k != kid:
                return keypool.secret_body(k)
            a, c_, params, _secret, curve, kdf = keypool.numbers(k)
            return rkeys.build_gnu_dummy_body(a, c_, params, curve, kdf)
        if not locked or (locked == 'subs' and k == kid):
            return keypool.secret_body(k)
        pw = sub_pw if (sub_pw is not None and k != kid) else PW
        return keypool.secret_body(k, protect={'usage': 254, 'sym': 7, 'spec': spec, 'iv': bytes(range(16)), 'passphrase': pw})
    out = wire.build_packet(5 if secret else 6, secbody(kid) if secret else ppub.body)
    t0 = ppub.created + 100
    # a key-flags subpacket in the *unhashed* area is not covered by the signature: anyone can add it, so it grants nothing
    unauth = keypool.sp(27, bytes([C | S | EC | ES | A])) if cfg.get('unhashed') else b''
    if with_uids and cfg.get('direct'):
        body = rsig.sign(psec, 0x1F, 8, ('key', ppub), keypool.std_hashed(t0 + 50, ppub.fingerprint, keypool.sp(27, bytes([cfg['uids'][0] | C]))), keypool.sp(16, ppub.keyid))
        out += wire.build_packet(2, body)
    if with_uids and cfg.get('bare') == 1:
        # a User ID packet without any self-signature (legal, RFC 4880 11.1; anybody can add one): it says nothing about the key
        out += wire.build_packet(13, b'Bare Identity <bare@example.org>')
    if with_uids:
        for i, flags in enumerate(cfg['uids']):
            ub = ('User %d <u%d@example.org>' % (i, i)).encode()
            # 'wide': a second flags octet (RFC 4880 5.2.3.21 "N octets of flags"; its bits mean other things, e.g. 0x04 restricted encryption,
            # 0x08 timestamping in later specifications) -- it grants none of the first-octet capabilities
            # 'direct': the self-certifications state no key flags at all; a direct-key self-signature does (RFC 4880 5.2.3.3: its subpackets
            # "apply to the entire key" -- where later specifications and GnuPG put them)
            extra = (b'' if cfg.get('direct') else keypool.sp(27, bytes([flags | C]) + (b'\x0e' if cfg.get('wide') else b''))) + keypool.sp(11, bytes([9, 7])) + keypool.sp(21, bytes([8])) + keypool.sp(22, bytes([2, 0]))
            body = rsig.sign(psec, 0x13, 8, ('cert', ppub, 'uid', ub), keypool.std_hashed(t0 + (len(cfg['uids']) - i), ppub.fingerprint, extra), keypool.sp(16, ppub.keyid) + unauth)
            out += wire.build_packet(13, ub) + wire.build_packet(2, body)
    if with_uids and cfg.get('bare') == 2:
        out += wire.build_packet(13, b'Aaa Bare Identity')
    for skid, hist in cfg['subs']:
        ssec = keypool.ref_secret(skid)
        spub = ssec.pub
        out += wire.build_packet(7 if secret else 14, secbody(skid) if secret else spub.body)
        for j, flags in enumerate(hist):
            if flags == 'nobind':
                continue        # a subkey packet without any binding signature (e.g. all that is left of a rotated-out subkey): no capability
            unh = keypool.sp(16, ppub.keyid) + unauth
            if flags == 'unhashed-only':
                # the binding signature states no key flags; somebody put a key-flags subpacket into the unhashed area, which grants nothing
                body = rsig.sign(psec, 0x18, 8, ('subkey', ppub, spub), keypool.std_hashed(t0 + j, ppub.fingerprint), unh + keypool.sp(27, bytes([S | EC | ES])))
                out += wire.build_packet(2, body)
                continue
            if flags & S:
                eb = rsig.sign(ssec, 0x19, 8, ('subkey', ppub, spub), keypool.std_hashed(t0 + j, spub.fingerprint), keypool.sp(16, spub.keyid))
                unh += keypool.sp(32, eb)
            body = rsig.sign(psec, 0x18, 8, ('subkey', ppub, spub), keypool.std_hashed(t0 + j, ppub.fingerprint, keypool.sp(27, bytes([flags]) + (b'\x0e' if cfg.get('wide') else b''))), unh)
            out += wire.build_packet(2, body)
    return out


def components(cfg, user):
    """[(name, kid, effective flags)] in PGPy's scan order (primary first)"""
    uf = cfg['uids'][user if user is not None else 0]
    out = [('primary', cfg['primary'], C | uf)]
    for skid, hist in cfg['subs']:
        out.append(('sub:' + skid, skid, hist[-1] if hist[-1] not in ('nobind', 'unhashed-only') else 0))
    return out


NEED = {'sign': S, 'certify': C, 'revoke': C, 'encrypt': EC | ES}


def do_op(cfg, op, form, enforce, user):
    """-> ('ok', acting kid, evidence) | ('raised', exc)"""
    import pgpy
    from pgpy.constants import SymmetricKeyAlgorithm
    secret = form != 'public'
    locked = form in ('locked', 'unlocked', 'failed-unlock')
    if form == 'sub-locked':
        locked = 'subs'       # the primary key is stored in the clear, every subkey is passphrase-protected and stays locked
    if form == 'stub-primary':
        locked = 'stub'       # gpg --export-secret-subkeys: the primary is a stub without secret material, the subkeys are complete
    noid = form == 'noid'
    key = keypool.pgpy_key(build(cfg, secret, locked, with_uids=not noid, sub_pw='another passphrase' if form == 'failed-unlock' else None))
    key._require_usage_flags = enforce
    if form == 'failed-unlock':
        # the primary opens with this passphrase, a subkey does not: unlock() must raise and leave everything locked
        try:
            with key.unlock(PW):
                pass
            return ('ok', 'unlock-did-not-raise')
        except Exception:   # noqa
            pass
        if key.is_unlocked:
            return ('ok', 'still-unlocked-after-failed-unlock')
    ukw = {'user': 'User %d' % user} if user is not None else {}
    if noid:
        # without an identity there are no preferences to take a hash from: name one, so that a refusal is the identity rule's doing
        from pgpy.constants import HashAlgorithm
        ukw['hash'] = HashAlgorithm.SHA256
    target = keypool.pgpy_key(keypool.ref_cert('ed25519-2', secret=False))

    def run():
        if op == 'sign':
            return key.sign(b'usage policy', **ukw)
        if op == 'certify':
            return key.certify(target.userids[0], **ukw)
        if op == 'revoke':
            return key.revoke(target.userids[0], **ukw)
        if op == 'selfcert':
            u = pgpy.PGPUID.new('First Identity')
            u._parent = key
            return key.certify(u, **({'hash': ukw['hash']} if 'hash' in ukw else {}))
        if op == 'bind':
            key.add_subkey(keypool.pgpy_key(wire.build_packet(5, keypool.secret_body('ecdh-p384-0'))), usage={pgpy.constants.KeyFlags.EncryptStorage})
            return list(key.subkeys.values())[-1]
        if op == 'encrypt':
            return key.encrypt(pgpy.PGPMessage.new(b'to whom it may concern'), cipher=SymmetricKeyAlgorithm.AES128, **ukw)
        if op == 'decrypt':
            raise harness.HarnessError('decrypt handled separately')
    try:
        if form == 'unlocked':
            with key.unlock(PW):
                res = run()
        else:
            res = run()
    except harness.HarnessError:
        raise
    except Exception as e:   # noqa
        return ('raised', e)
    return ('ok', res)


def acting_component(cfg, res, op):
    """-> (kid of the component named in the output, did it act?)"""
    comps = [(cfg['primary'])] + [s[0] for s in cfg['subs']]
    if op == 'encrypt':
        pk = [p for p in wire.split_packets(bytes(res)) if p.tag == 1][0]
        ps = renc.parse_pkesk(pk.body)
        named = [k for k in comps if keypool.ref_public(k).keyid == ps.keyid]
        if not named:
            return None, False, 'recipient id %s names no component' % ps.keyid.hex()
        try:
            renc.pkesk_decrypt(ps, keypool.ref_secret(named[0]))
            return named[0], True, ''
        except wire.WireError as e:
            return named[0], False, str(e)
    s = rsig.parse_sig_body(wire.split_packets(bytes(res))[0].body)
    iss = rsig.issuer_keyid(s)
    ifp = rsig.issuer_fpr(s)
    named = [k for k in comps if keypool.ref_public(k).keyid == iss]
    if not named:
        return None, False, 'issuer %s names no component' % (iss.hex() if iss else None)
    if ifp is not None and ifp != keypool.ref_public(named[0]).fingerprint:
        return named[0], False, 'issuer fingerprint differs from issuer key id'
    return named[0], None, s


def evaluate(c, rec):
    import pgpy
    cfg, op, form, enforce, user = c['cfg'], c['op'], c['form'], c['enforce'], c['user']
    if user is not None and user >= len(cfg['uids']):
        user = None
    comps = components(cfg, user)
    case = dict(c, user=user)
    key = (cfg['primary'], tuple(cfg['uids']), tuple((k, tuple(h)) for k, h in cfg['subs']), op, form, enforce, user, bool(cfg.get('unhashed')), bool(cfg.get('wide')), cfg.get('bare', 0), bool(cfg.get('direct')))
    labels = ['op/' + op, 'form/' + form, 'enforce/%s' % enforce, 'nsubs/%d' % len(cfg['subs'])] + (['unauthenticated-flags-in-unhashed-area'] if cfg.get('unhashed') else []) + (['two-octet-key-flags'] if cfg.get('wide') else [])
    sample = {'primary': cfg['primary'], 'identity_flags': cfg['uids'], 'subkeys': cfg['subs'], 'op': op, 'form': form, 'enforcement': enforce, 'user': user}

    if op == 'decrypt':
        # the reference encrypts to one addressed component; decrypt on the primary must find it
        enc_comps = [k for k in [cfg['primary']] + [s[0] for s in cfg['subs']] if keypool.entry(k)['alg'] in (1, 18)]
        if not enc_comps:
            rec.case(None, False, ['op/decrypt', 'no-encryption-capable-component'])
            return
        tgt = enc_comps[c.get('pick', 0) % len(enc_comps)]
        session = bytes(range(16))
        lit = wire.build_packet(11, grammar.build_literal(0x62, b'', 0, b'addressed to ' + tgt.encode()))
        blob = wire.build_packet(1, renc.pkesk_build(keypool.ref_public(tgt), 7, session)) + wire.build_packet(18, renc.seipd_build(7, session, lit))
        secret = form != 'public'
        locked = form in ('locked', 'unlocked')
        if form == 'stub-primary':
            # the primary is a stub; the message is addressed to the (complete) subkey and, where the primary can encrypt at all, to the primary
            # as well (senders that encrypt to every encryption-capable component): the addressed subkey still has to be found
            if tgt == cfg['primary']:
                return
            locked = 'stub'
            if keypool.entry(cfg['primary'])['alg'] == 1:
                blob = wire.build_packet(1, renc.pkesk_build(keypool.ref_public(cfg['primary']), 7, session)) + blob
                labels = labels + ['addressed-also/primary']
        k = keypool.pgpy_key(build(cfg, secret, locked, with_uids=form != 'noid'))
        k._require_usage_flags = enforce
        try:
            if form == 'unlocked':
                with k.unlock(PW):
                    out = bytes(k.decrypt(pgpy.PGPMessage.from_blob(blob)).message)
            else:
                out = bytes(k.decrypt(pgpy.PGPMessage.from_blob(blob)).message)
            res = 'ok'
        except Exception as e:   # noqa
            res, out = 'raised', e
        rec.case(key + (tgt,), tgt != cfg['primary'], labels + ['addressed/' + ('subkey' if tgt != cfg['primary'] else 'primary'), 'outcome/' + res], dict(sample, addressed=tgt, outcome=res))
        should_work = form in ('private', 'unlocked', 'stub-primary')
        if form == 'failed-unlock':
            return
        if should_work and (res != 'ok' or out != b'addressed to ' + tgt.encode()):
            rec.finding('decrypt', 'addressed-component-not-found/' + ('subkey' if tgt != cfg['primary'] else 'primary'), case, repr(out)[:200])
        if not should_work and res == 'ok':
            rec.finding('form', 'private-operation-on-%s-key/decrypt' % form, case, '')
        return

    r = do_op(cfg, op, form, enforce, user)
    need = NEED.get(op, 0)
    granting = [k for n, k, f in comps if f & need] if need else [cfg['primary']]
    outcome = r[0]
    nontriv = False
    # ---- form matrix
    private_op = op in ('sign', 'certify', 'revoke', 'bind', 'selfcert')
    if form == 'noid':
        allowed = op == 'selfcert'
        rec.case(key, True, labels + ['outcome/' + outcome], dict(sample, outcome=outcome))
        if outcome == 'ok' and not allowed:
            rec.finding('form', 'key-without-identity-performs/' + op, case, '')
        if outcome != 'ok' and allowed:
            rec.finding('form', 'first-self-certification-refused', case, repr(r[1]))
        return
    if form == 'failed-unlock':
        rec.case(key, True, labels + ['outcome/' + outcome, 'expected/refusal-by-form'], dict(sample, outcome=outcome))
        if outcome == 'ok':
            rec.finding('form', 'private-operation-after-failed-unlock/%s' % (r[1] if isinstance(r[1], str) else op), case, '')
        return
    if (private_op and form in ('public', 'locked')) or (op == 'encrypt' and form != 'public'):
        rec.case(key, True, labels + ['outcome/' + outcome, 'expected/refusal-by-form'], dict(sample, outcome=outcome))
        if outcome == 'ok':
            rec.finding('form', '%s-on-%s-key-not-refused' % (op, form), case, '')
        return
    if form == 'sub-locked':
        # only the primary key holds usable secret material: a locked subkey must never be the one that acts
        rec.case(key, True, labels + ['outcome/' + outcome], dict(sample, outcome=outcome))
        if outcome == 'ok' and op in ('sign', 'certify', 'revoke'):
            named, acted, info = acting_component(cfg, r[1], op)
            if named is not None and named != cfg['primary']:
                rec.finding('form', 'locked-subkey-performs/' + op, case, 'the %s was issued in the name of the locked subkey %s' % (op, named))
            elif named is not None and acted is None:
                subj = ('doc', b'usage policy') if op == 'sign' else ('cert', keypool.ref_public('ed25519-2'), 'uid', b'Pool Key <pool@example.org>')
                if not rsig.verify(info, subj, keypool.ref_public(named))[0]:
                    rec.finding('policy', 'named-component-did-not-act/' + op, case, 'sub-locked form')
        elif outcome == 'raised' and op in NEED and (C | cfg['uids'][user if user is not None else 0]) & NEED[op] and op != 'encrypt' and enforce:
            rec.finding('policy', 'refused-although-the-unlocked-primary-grants/' + op, case, repr(r[1]))
        return
    if form == 'stub-primary':
        # the stub can never act; a subkey that grants the capability holds everything that is needed
        able = [k for n, k, f in comps if f & need and k != cfg['primary']]
        rec.case(key, True, labels + ['outcome/' + outcome, 'able-subkeys/%d' % len(able)], dict(sample, outcome=outcome, able=able))
        if outcome == 'ok':
            named, acted, info = acting_component(cfg, r[1], op)
            if named is None or named == cfg['primary']:
                rec.finding('form', 'stub-primary-performs/' + op, case, str(named))
            elif named not in able and enforce:
                rec.finding('policy', 'acting-component-lacks-capability/' + op, case, 'stub-primary form: named %s, able %r' % (named, able))
            else:
                subj = ('doc', b'usage policy') if op == 'sign' else ('cert', keypool.ref_public('ed25519-2'), 'uid', b'Pool Key <pool@example.org>')
                if not rsig.verify(info, subj, keypool.ref_public(named))[0]:
                    rec.finding('policy', 'named-component-did-not-act/' + op, case, 'stub-primary form')
        elif able:
            rec.finding('policy', 'refused-although-a-complete-subkey-grants/' + op, case, '%r; able: %r' % (r[1], able))
        return
    # ---- capability matrix
    if outcome == 'raised':
        nontriv = not granting
        rec.case(key, nontriv, labels + ['outcome/raised', 'granting/%d' % len(granting)], dict(sample, outcome='raised', granting=granting))
        if granting:
            rec.finding('policy', 'refused-although-a-component-grants/' + op, case, '%r; granting: %r' % (r[1], granting))
        elif not enforce and op in NEED and 'required usage flag' in str(r[1]):
            # with enforcement off the operation proceeds with some component; it may still fail if that component's
            # algorithm cannot perform it, but it must not be refused on account of the flags
            rec.finding('policy', 'enforcement-off-still-refuses/' + op, case, repr(r[1]))
        elif not enforce and op in NEED and (op != 'encrypt' or cfg['primary'].startswith('rsa')):
            # ... and the key the caller addressed is able to do the work by its algorithm (every primary key of the pool can
            # sign; RSA keys can encrypt): being refused because the search ended on a subkey of another algorithm is a refusal
            rec.finding('policy', 'enforcement-off-refused-although-the-addressed-key-is-able/' + op, case, repr(r[1]))
        return
    if op in ('bind', 'selfcert'):
        rec.case(key, False, labels + ['outcome/ok'], dict(sample, outcome='ok'))
        return
    named, acted, info = acting_component(cfg, r[1], op)
    if named is not None and acted is None:
        # signature: the reference verifies it with the named component's public key
        subj = ('doc', b'usage policy') if op == 'sign' else ('cert', keypool.ref_public('ed25519-2'), 'uid', b'Pool Key <pool@example.org>')
        acted = rsig.verify(info, subj, keypool.ref_public(named))[0]
        info = 'reference verification with the named component'
    nontriv = (named is not None and named != cfg['primary']) or not granting
    rec.case(key, nontriv, labels + ['outcome/ok', 'acting/' + ('none' if named is None else 'primary' if named == cfg['primary'] else 'subkey'), 'granting/%d' % len(granting)],
             dict(sample, outcome='ok', named=named, granting=granting))
    if named is None or not acted:
        rec.finding('policy', 'named-component-did-not-act/' + op, case, str(info)[:200])
        return
    if granting and named not in granting:
        rec.finding('policy', 'acting-component-lacks-capability/' + op, case, 'named %s, granting %r' % (named, granting))
    if not granting and enforce:
        rec.finding('policy', 'no-component-grants-but-not-refused/' + op, case, 'named %s' % named)


OPS = ['sign', 'certify', 'revoke', 'bind', 'encrypt', 'decrypt', 'selfcert']
FORMS = ['public', 'private', 'locked', 'unlocked', 'noid']


def sweep(cfg, rec, pick=0):
    for op in OPS:
        for form in FORMS + (['failed-unlock', 'sub-locked', 'stub-primary'] if cfg['subs'] and op in ('sign', 'certify') else []) + (['stub-primary'] if cfg['subs'] and op == 'decrypt' else []):
            for enforce in (True, False):
                users = [None] + ([1] if len(cfg['uids']) > 1 and op in ('sign', 'certify', 'encrypt') else [])
                for user in users:
                    if op == 'selfcert' and form != 'noid':
                        continue
                    evaluate({'cfg': cfg, 'op': op, 'form': form, 'enforce': enforce, 'user': user, 'pick': pick}, rec)


FIXED = [
    {'primary': 'ed25519-0', 'uids': [S], 'subs': []},
    {'primary': 'ed25519-0', 'uids': [0], 'subs': [('ed25519-1', [S]), ('cv25519-0', [EC | ES])]},
    {'primary': 'ecdsa-p256-0', 'uids': [0, S], 'subs': [('cv25519-0', [EC])]},
    {'primary': 'ed25519-0', 'uids': [0], 'subs': [('ed25519-1', [A]), ('cv25519-0', [0])]},
    {'primary': 'ed25519-0', 'uids': [0], 'subs': [('ecdsa-p256-1', [S, A]), ('cv25519-1', [EC, 0]), ('ecdh-p256-0', [0, ES])]},
    {'primary': 'rsa1024-0', 'uids': [EC | ES], 'subs': [('rsa1024-1', [S])]},
    {'primary': 'rsa1024-0', 'uids': [A], 'subs': [('ed25519-1', [A]), ('cv25519-0', [A & 0])]},
    {'primary': 'ed25519-0', 'uids': [0, A], 'subs': [('ed25519-1', [A]), ('cv25519-0', [0])], 'unhashed': True},
    {'primary': 'rsa1024-0', 'uids': [0], 'subs': [('rsa1024-1', [A])], 'unhashed': True},
    {'primary': 'rsa1024-0', 'uids': [0], 'subs': [('rsa1024-1', [A]), ('cv25519-0', [0])], 'wide': True},
    {'primary': 'ed25519-0', 'uids': [A], 'subs': [('ed25519-1', [0])], 'wide': True},
    {'primary': 'ed25519-0', 'uids': [S], 'subs': [], 'direct': True},
    {'primary': 'rsa1024-0', 'uids': [EC | ES | S], 'subs': [('cv25519-0', [0])], 'direct': True},
    {'primary': 'ed25519-0', 'uids': [S], 'subs': [], 'bare': 1},
    {'primary': 'rsa1024-0', 'uids': [0], 'subs': [('ed25519-1', [S]), ('cv25519-0', [EC])], 'bare': 2},
    {'primary': 'ed25519-0', 'uids': [0], 'subs': [('ecdsa-p256-1', ['unhashed-only']), ('ed25519-1', [S]), ('cv25519-0', ['unhashed-only']), ('cv25519-1', [EC])]},
    {'primary': 'ed25519-0', 'uids': [0], 'subs': [('ecdsa-p256-1', ['nobind']), ('ed25519-1', [S]), ('cv25519-0', ['nobind']), ('cv25519-1', [EC])]},
]


def w_fixed(arg):
    rec = harness.Rec()
    sweep(FIXED[arg], rec, arg)
    return rec


def w_random(arg):
    seed, idx, n, bsec = arg
    rec = harness.Rec()
    strat = st.fixed_dictionaries({'cfg': cfg_strategy(), 'pick': st.integers(0, 3)})
    harness.run_given(strat, lambda c: sweep({'primary': c['cfg']['primary'], 'uids': list(c['cfg']['uids']), 'subs': [(k, list(h)) for k, h in c['cfg']['subs']], 'unhashed': c['cfg'].get('unhashed', False), 'wide': c['cfg'].get('wide', False)}, rec, c['pick']),
                      harness.derive_seed('C16', seed, idx), n, harness.Budget(bsec), rec)
    return rec


def history_strategy():
    step = st.one_of(
        st.tuples(st.just('op'), st.sampled_from(['sign', 'certify', 'sign']), st.integers(0, 2)),
        st.tuples(st.just('op'), st.sampled_from(['sign', 'certify', 'sign']), st.integers(0, 2)),
        st.tuples(st.just('recert'), st.integers(0, 2), st.sampled_from([0, S, A, S | A])),
        st.tuples(st.just('rebind'), st.integers(0, 2), st.sampled_from([0, S, A, S | A])),
        st.tuples(st.just('add_uid'), st.sampled_from([0, S, A])),
        st.tuples(st.just('del_uid'), st.integers(0, 2)),
    ).map(list)
    return st.fixed_dictionaries({'kind': st.just('history'), 'primary': st.sampled_from(['ed25519-0', 'ecdsa-p256-0']), 'uids': st.lists(st.sampled_from([0, S, A]), min_size=1, max_size=2),
                                  'subs': st.lists(st.tuples(st.sampled_from(['ed25519-1', 'ecdsa-p256-1']), st.sampled_from([0, S, A])).map(list), max_size=2, unique_by=lambda x: x[0]),
                                  'steps': st.lists(step, min_size=2, max_size=9)})


def run_history(c, rec):
    """The same key object lives through changes of its self-signatures (re-certified identity, re-bound subkey, identity added or removed);
    every signing / certifying operation in between is judged against the capability flags in force at that moment."""
    import datetime
    import pgpy
    from pgpy.constants import SignatureType, KeyFlags
    cfg = {'primary': c['primary'], 'uids': list(c['uids']), 'subs': [(k, [f]) for k, f in c['subs']]}
    key = keypool.pgpy_key(build(cfg, True))
    target = keypool.pgpy_key(keypool.ref_cert('ed25519-2', secret=False))
    names = ['User %d' % i for i in range(len(cfg['uids']))]      # identity i of the model is addressed by this name
    t = keypool.ref_public(c['primary']).created + 5000
    applied = []

    def fs(f):
        return {x for x in KeyFlags if f & x.value}
    for n, step in enumerate(c['steps']):
        t += 10
        when = datetime.datetime.fromtimestamp(t, datetime.timezone.utc)
        try:
            if step[0] == 'recert':
                i = step[1] % len(names)
                u = key.get_uid(names[i])
                u |= key.certify(u, SignatureType.Positive_Cert, usage=fs(step[2] | C), created=when)
                cfg['uids'][i] = step[2]
            elif step[0] == 'rebind':
                if not cfg['subs']:
                    continue
                j = step[1] % len(cfg['subs'])
                sub = [sk for sk in key.subkeys.values() if str(sk.fingerprint) == keypool.ref_public(cfg['subs'][j][0]).fingerprint.hex().upper()][0]
                sub |= key.bind(sub, usage=fs(step[2]), created=when)
                cfg['subs'][j][1].append(step[2])
            elif step[0] == 'add_uid':
                if len(names) >= 4:
                    continue
                nm = 'User %d' % (len(names) + 10 * n + 10)
                key.add_uid(pgpy.PGPUID.new(nm), usage=fs(step[1] | C), created=when)
                names.append(nm)
                cfg['uids'].append(step[1])
            elif step[0] == 'del_uid':
                if len(names) < 2:
                    continue
                i = step[1] % len(names)
                key.del_uid(names[i])
                del names[i]
                del cfg['uids'][i]
            else:
                op, i = step[1], step[2] % len(names)
                need = NEED[op]
                comps = components(cfg, i)
                granting = [k for _, k, f in comps if f & need]
                try:
                    res = key.sign(b'usage policy', user=names[i]) if op == 'sign' else key.certify(target.userids[0], user=names[i])
                    outcome = 'ok'
                except Exception as e:   # noqa
                    res, outcome = e, 'raised'
                changed = any(a in ('recert', 'rebind', 'add_uid', 'del_uid') for a in applied)
                rec.case(('history', c['primary'], tuple(applied), op, tuple(cfg['uids']), tuple((k, tuple(h)) for k, h in cfg['subs'])), changed,
                         ['history/op-' + op, 'history/outcome-' + outcome, 'history/after-change=%s' % changed, 'granting/%d' % len(granting)],
                         {'kind': 'history', 'before': list(applied), 'op': op, 'identity_flags_now': list(cfg['uids']), 'subkeys_now': [list(x) for x in cfg['subs']], 'outcome': outcome})
                if outcome == 'raised' and granting:
                    rec.finding('policy-history', 'refused-although-a-component-grants/' + op, c, 'step %d after %r: %r; granting now: %r' % (n, applied, res, granting))
                elif outcome == 'ok':
                    named, acted, info = acting_component(cfg, res, op)
                    if named is not None and acted is None:
                        subj = ('doc', b'usage policy') if op == 'sign' else ('cert', keypool.ref_public('ed25519-2'), 'uid', b'Pool Key <pool@example.org>')
                        acted = rsig.verify(info, subj, keypool.ref_public(named))[0]
                    if named is None or not acted:
                        rec.finding('policy-history', 'named-component-did-not-act/' + op, c, 'step %d' % n)
                    elif not granting:
                        rec.finding('policy-history', 'no-component-grants-but-not-refused/' + op, c, 'step %d after %r: performed by %s although no component has the capability now (identity flags %r, subkeys %r)' % (
                            n, applied, named, cfg['uids'], cfg['subs']))
                    elif named not in granting:
                        rec.finding('policy-history', 'acting-component-lacks-capability/' + op, c, 'step %d after %r: named %s, granting %r' % (n, applied, named, granting))
            applied.append(step[0] if step[0] != 'op' else step[1])
        except harness.HarnessError:
            raise
        except Exception as e:   # noqa
            rec.finding('policy-history', 'exception/%s/%s' % (step[0], harness.exc_key(e)), c, 'step %d %r: %r' % (n, step, e))
            return


HIST_SCRIPTS = [
    {'kind': 'history', 'primary': 'ed25519-0', 'uids': [S], 'subs': [], 'steps': [['op', 'sign', 0], ['recert', 0, 0], ['op', 'sign', 0], ['recert', 0, S], ['op', 'sign', 0]]},
    {'kind': 'history', 'primary': 'ed25519-0', 'uids': [0, S], 'subs': [['ed25519-1', S]], 'steps': [['op', 'sign', 1], ['rebind', 0, A], ['op', 'sign', 1], ['op', 'sign', 0], ['recert', 1, 0], ['op', 'sign', 1], ['del_uid', 0], ['op', 'sign', 0]]},
    {'kind': 'history', 'primary': 'ecdsa-p256-0', 'uids': [0], 'subs': [['ecdsa-p256-1', 0]], 'steps': [['op', 'sign', 0], ['add_uid', S], ['op', 'sign', 1], ['op', 'sign', 0], ['rebind', 0, S], ['op', 'sign', 0]]},
]


def w_history(arg):
    seed, idx, n, bsec = arg
    rec = harness.Rec()
    if idx == 0:
        for sc in HIST_SCRIPTS:
            run_history(sc, rec)
    harness.run_given(history_strategy(), lambda c: run_history(c, rec), harness.derive_seed('C16h', seed, idx), n, harness.Budget(bsec), rec)
    return rec


def run(tier, seed):
    tasks = [('w_fixed', i) for i in range(len(FIXED))]
    n, bsec = (6, 80) if tier == 'quick' else (120, 1200)
    for i in range(9 if tier == 'quick' else 25):
        tasks.append(('w_random', (seed, i, n, bsec)))
    for i in range(4 if tier == 'quick' else 8):
        tasks.append(('w_history', (seed, i, 25 if tier == 'quick' else 600, 60 if tier == 'quick' else 900)))
    return harness.pmap('vpgpy.props.c16', 'dispatch', tasks)


def dispatch(task):
    return globals()[task[0]](task[1])


def replay(case):
    rec = harness.Rec()
    c = dict(case)
    if c.get('kind') == 'history':
        run_history(c, rec)
        return [(f['clause'], f['cause'], f['detail']) for f in rec.findings]
    c['cfg'] = {'primary': c['cfg']['primary'], 'uids': list(c['cfg']['uids']), 'subs': [(k, list(h)) for k, h in c['cfg']['subs']], 'unhashed': c['cfg'].get('unhashed', False), 'wide': c['cfg'].get('wide', False)}
    evaluate(c, rec)
    return [(f['clause'], f['cause'], f['detail']) for f in rec.findings]
