"""C03 -- encryption round-trips and conforms to RFC 4880 / RFC 6637 in both directions.

forward: PGPy encrypts (public API) -> every recipient decrypts with PGPy *and* with refpgp.enc (own S2K,
own PKCS#1/ECDH unwrap with own KDF + RFC 3394 unwrap, own CFB framing and MDC check).
backward: refpgp.enc encrypts well-formed messages -> PGPy must decrypt to the original."""
from hypothesis import strategies as st

from .. import harness, keypool, enckit
from ..refpgp import wire, keys as rkeys, grammar, enc, s2k as rs2k, sym as rsym, armor

RULE = ('Hypothesis draws message (body class incl. empty/block-boundary/binary/text/64 KiB, format b/t/u/auto, for-your-eyes-only, '
        'compression 0-3, 0-2 signers), cipher (9), recipient list (1-4 of: RSA 1024/2048/3072 subkey, ECDH subkey on Curve25519/P-256/'
        'P-384/P-521/secp256k1 incl. leading-zero edge keys, passphrase x 7 S2K hashes), supplied/generated session key, armored/binary; '
        'forward = PGPy encrypts, each recipient decrypts with PGPy and with the independent decryptor; backward = the independent '
        'encryptor (SKESK with/without encrypted session key, salted/iterated S2K, PKESK RSA/ECDH, SEIPD or tag-9 container, old/new/'
        'partial inner headers) and PGPy decrypts. Non-trivial: >=2 recipients, or non-default cipher/compression, or body > one '
        'cipher block, or foreign-produced; distinct by (direction, cipher, recipient kinds, compression, body class).')
RULE += ' Forward: with several recipients the caller may forget to pass the session key on (refusal, or everybody decrypts). Backward PKESK packets may leave the key id zero (hidden recipient); RSA recipients also under algorithm id 2. Text under format t in a declared character set (cp1252, koi8-r, latin-1) must read back as given when the transport is armored. Backward messages may carry a further PKESK for a recipient of an unknown public-key algorithm. Messages of the cleartext framework are encrypted too (refusal or the same text). Backward cases include an SKESK whose own cipher differs (also in key size) from the data cipher. Inner packets also with old-format indeterminate lengths; ECDH session keys padded to 40/48 octets (RFC 6637 8); RSA recipients whose modulus length is not a multiple of 8 bits; messages exported before being signed; the export of the decrypted message must be a grammar-conformant message (no MDC leftovers).'
ASSUMPTIONS = ['refpgp.enc is an independent RFC 4880 5.1/5.3/5.13/13.9 + RFC 6637 + RFC 3394 implementation sharing only block ciphers, '
               'RSA/ECDH primitives and hashlib with PGPy', 'a supplied session key has exactly the cipher key size (documented precondition)',
               'literal time compared at the wire resolution of one second']


def case_strategy(tier):
    big = True
    return st.fixed_dictionaries({
        'dir': st.sampled_from(['fwd', 'fwd', 'bwd', 'fwd', 'fwd', 'bwd', 'clear']),
        'text': st.text(alphabet=st.sampled_from(list('abc -ü\n')), max_size=40),
        'msg': enckit.msg_strategy(big),
        'cipher': st.sampled_from(enckit.CIPHERS),
        'recips': enckit.recipient_strategy(fast=(tier == 'quick')),
        'armored': st.booleans(),
        'supplied': st.booleans(),
        'forget': st.sampled_from([False, False, False, True]),
        'throw': st.sampled_from([False, False, False, True]),
        'bwd': st.fixed_dictionaries({
            'container': st.sampled_from([18, 18, 18, 9]),
            'esk': st.booleans(),
            'skc': st.integers(0, 5),
            'foreign': st.sampled_from([None, None, None, 100, 110, 25, 21, 28]),
            'anon': st.sampled_from([False, False, False, True]),
            's2k': st.sampled_from(['iterated', 'salted', 'iterated']),
            'count': st.integers(0, 120),
            'hdr': st.sampled_from(['new', 'old', 'partial', 'new5', 'indeterminate']),
            'fname': st.sampled_from(['', 'f.txt', '_CONSOLE', 'ünï.txt', 'x' * 255]),
            't': st.sampled_from([0, 1, 1234567890, (1 << 32) - 1]),
        }),
    })


def body_class(n):
    return 'empty' if n == 0 else '<=block' if n <= 16 else '<8384' if n < 8384 else 'large'


def recip_kinds(recips):
    out = []
    for r in recips:
        if r['t'] == 'pass':
            out.append('pass/h%d' % r['h'])
        else:
            e = keypool.entry(r['kid'])
            out.append('RSA' if e['alg'] == 1 else 'RSA-encrypt-only' if e['alg'] == 2 else 'ECDH/' + e['curve'] + ('/kdf%d,%d' % tuple(e['kdf']) if '@' in r['kid'] else ''))
    return sorted(out)


def eval_forward(case, rec):
    import pgpy
    from pgpy.constants import SymmetricKeyAlgorithm
    spec = case['msg']
    cipher = case['cipher']
    recips = case['recips']
    kinds = recip_kinds(recips)
    body = bytes.fromhex(spec['body'])
    key = ('fwd', cipher, tuple(kinds), spec['comp'], body_class(len(body)), spec['fmt'], len(spec['signers']))
    nontrivial = len(recips) >= 2 or cipher != 9 or spec['comp'] != 1 or len(body) > 16
    rec.case(key, nontrivial, ['dir/fwd', 'cipher/%d' % cipher, 'comp/%d' % spec['comp'], 'body/' + body_class(len(body)),
                               'nrecip/%d' % len(recips)] + ['recip/' + k for k in kinds] + (['exported-before-signing'] if spec.get('peek') and spec['signers'] else []),
             {'dir': 'fwd', 'cipher': cipher, 'recipients': kinds, 'comp': spec['comp'], 'body_len': len(body), 'fmt': spec['fmt'],
              'signers': spec['signers'], 'armored': case['armored']})
    try:
        msg = enckit.build_pgpy_message(spec)
        expect = enckit.snapshot(msg)
        forget = bool(case.get('forget')) and len(recips) > 1
        supplied = SymmetricKeyAlgorithm(cipher).gen_key() if (case['supplied'] or len(recips) > 1) and not forget else None
        try:
            encm, sk = enckit.pgpy_encrypt(msg, recips, cipher, supplied, forget=forget)
        except Exception:   # noqa
            if not forget:
                raise
            # adding a recipient to an encrypted message without saying which session key it has: a refusal is the honest answer
            rec.note('fwd/further-recipient-without-session-key/refused')
            return
        if forget:
            rec.note('fwd/further-recipient-without-session-key/accepted')
        blob = str(encm) if case['armored'] else bytes(encm)
    except Exception as e:   # noqa
        rec.finding('fwd/encrypt', 'exception/' + harness.exc_key(e), case, repr(e))
        return
    binblob = bytes(encm)
    if case.get('throw') and any(r['t'] == 'key' for r in recips):
        # the sender's tool hides the recipients afterwards (gpg --throw-keyids): the key id of every PKESK is set to zero; armor headers stay
        pk = wire.split_packets(binblob)
        binblob = b''.join(wire.build_packet(1, p.body[:1] + bytes(8) + p.body[9:]) if p.tag == 1 else p.raw for p in pk)
        hdrs = tuple(encm.ascii_headers.items())
        blob = armor.write_block('MESSAGE', binblob, headers=hdrs) if case['armored'] else binblob
        rec.note('fwd/key-ids-thrown-afterwards')
    # structure: ESK* then one container (reference grammar)
    try:
        pm = grammar.parse_message(binblob)
        if pm.kind != 'encrypted' or len(pm.esks) != len(recips) or pm.container.tag != 18:
            rec.finding('fwd/structure', 'esk-count-or-container', case, 'esks=%d recips=%d container=%d' % (len(pm.esks), len(recips), pm.container.tag))
    except wire.WireError as e:
        rec.finding('fwd/structure', 'not-a-message', case, str(e))
        return
    kids = [r['kid'] for r in recips if r['t'] == 'key']
    mixed = any(r['t'] == 'pass' for r in recips) and bool(kids)
    for r in recips:
        who = 'pass' if r['t'] == 'pass' else r['kid']
        # --- PGPy decrypts the re-imported message
        try:
            m2 = pgpy.PGPMessage.from_blob(blob)
            if r['t'] == 'pass':
                dec = m2.decrypt(r['pw'])
            else:
                sec = keypool.pgpy_key(enckit.recipient_cert(kids, secret=True))
                dec = sec.decrypt(m2)
            got = enckit.snapshot(dec)
        except Exception as e:   # noqa
            cause = 'exception/' + harness.exc_key(e)
            if mixed and isinstance(e, AttributeError):
                cause = 'mixed-recipients-attributeerror'
            if forget:
                cause = 'further-recipient-without-session-key'
            rec.finding('fwd/pgpy-decrypt', cause, case, '%s: %r' % (who, e))
            continue
        # what decrypt() returns is a message again: its export follows the 11.3 grammar (no MDC or other container leftovers)
        try:
            dpk = wire.split_packets(bytes(dec))
            if spec['comp'] and dpk and dpk[0].tag == 8:
                dpk = wire.split_packets(grammar.decompress(dpk[0].body[0], dpk[0].body[1:]))
            if any(p.tag not in (2, 4, 11) for p in dpk) or sum(1 for p in dpk if p.tag == 11) != 1:
                rec.finding('fwd/pgpy-roundtrip', 'decrypted-message-exports-foreign-packets', case, 'tags %r' % [p.tag for p in dpk])
        except (wire.WireError, Exception) as e:   # noqa
            rec.finding('fwd/pgpy-roundtrip', 'decrypted-message-export-unreadable', case, repr(e))
        for f in ('message', 'filename', 'sensitive', 'format', 'mtime', 'compression', 'signatures'):
            if f == 'message' and not case['armored'] and spec.get('charset') and expect['format'] == 't':
                # the binary form carries no Charset hint: the octets are compared (by the independent decryptor below), not their reading as text
                continue
            if got[f] != expect[f]:
                rec.finding('fwd/pgpy-roundtrip', f, case, '%s: %s %r != %r' % (who, f, str(got[f])[:80], str(expect[f])[:80]))
        # signatures still verify
        for kid in spec['signers']:
            try:
                ok = keypool.pgpy_key(keypool.ref_cert(kid, secret=False)).verify(dec)
            except Exception as e:   # noqa
                ok = False
            if not ok:
                rec.finding('fwd/pgpy-roundtrip', 'signature-no-longer-verifies', case, kid)
        # --- the independent decryptor
        try:
            if r['t'] == 'pass':
                res = enc.decrypt_message(binblob, passphrase=r['pw'])
            else:
                res = enc.decrypt_message(binblob, seckeys=[keypool.ref_secret(r['kid'])])
        except wire.WireError as e:
            rec.finding('fwd/ref-decrypt', 'further-recipient-without-session-key' if forget else 'pass/h%d' % r['h'] if r['t'] == 'pass' else 'key/' + recip_kinds([r])[0],
                        case, '%s: %s' % (who, e))
            continue
        if res['sym'] != cipher or len(res['session_key']) != rsym.KEYLEN[cipher]:
            rec.finding('fwd/session-key', 'size-or-cipher', case, 'sym %d keylen %d' % (res['sym'], len(res['session_key'])))
        if sk is not None and bytes(res['session_key']) != bytes(sk):
            rec.finding('fwd/session-key', 'not-the-supplied-key', case, who)
        probs, inner = enckit.ref_inner_check(res['plaintext'], spec, expect)
        for p in probs:
            rec.finding('fwd/ref-plaintext', p.split(' ')[0], case, '%s: %s' % (who, p))
        if inner is not None and inner.literal is not None:
            want = bytes.fromhex(expect['message']) if isinstance(expect['message'], str) else expect['message'][1].encode(
                (spec.get('charset') or 'latin-1') if expect['format'] == 't' else 'utf-8')
            if inner.literal.data != want:
                rec.finding('fwd/ref-plaintext', 'content', case, '%s: literal body differs' % who)


def _inner_packets(spec, b):
    body = bytes.fromhex(spec['body'])
    fmt = {'b': 0x62, 't': 0x74, 'u': 0x75, None: 0x62}[spec['fmt']]
    if fmt != 0x62:
        try:
            body.decode('utf-8')
        except UnicodeDecodeError:
            fmt = 0x62
        if fmt == 0x74 and any(c > 0x7e for c in body):
            fmt = 0x75
    lit = grammar.build_literal(fmt, b['fname'].encode('utf-8'), b['t'], body)
    if b['hdr'] == 'old':
        pkt = wire.build_packet(11, lit, 'old')
    elif b['hdr'] == 'new5':
        pkt = wire.build_packet(11, lit, 'new', 5)
    elif b['hdr'] == 'indeterminate':
        # old format, length type 3: the packet extends to the end of the enclosing data (here: up to the MDC packet)
        pkt = wire.build_packet(11, lit, 'old', 3)
    elif b['hdr'] == 'partial' and len(lit) >= 600:
        pkt = wire.build_packet(11, lit, 'new', chunks=[512, len(lit) - 512])
    else:
        pkt = wire.build_packet(11, lit)
    inner = pkt
    if spec['comp']:
        inner = wire.build_packet(8, bytes([spec['comp']]) + grammar.compress(spec['comp'], pkt), *(('old', 3) if b['hdr'] == 'indeterminate' else ()))
    return inner, fmt, body


def eval_backward(case, rec):
    import pgpy
    import calendar
    spec = case['msg']
    b = case['bwd']
    cipher = case['cipher']
    recips = case['recips']
    kinds = recip_kinds(recips)
    inner, fmt, body = _inner_packets(spec, b)
    key = ('bwd', cipher, tuple(kinds), spec['comp'], body_class(len(body)), b['container'], b['esk'], b['s2k'], b['hdr'])
    rec.case(key, True, ['dir/bwd', 'cipher/%d' % cipher, 'comp/%d' % spec['comp'], 'body/' + body_class(len(body)), 'container/%d' % b['container'],
                         'hdr/' + b['hdr'], 'nrecip/%d' % len(recips)] + ['recip/' + k for k in kinds],
             {'dir': 'bwd', 'cipher': cipher, 'recipients': kinds, 'comp': spec['comp'], 'body_len': len(body), 'container': b['container'],
              'skesk_has_esk': b['esk'], 's2k': b['s2k'], 'inner_header': b['hdr']})
    session = bytes((i * 37 + 11) & 0xFF for i in range(rsym.KEYLEN[cipher]))
    esks = b''
    direct = False
    for r in recips:
        if r['t'] == 'key':
            # ECDH: RFC 6637 section 8 lets the sender pad beyond the next multiple of 8 (GnuPG pads to 40 octets)
            # 'anon': the key id is left zero (RFC 4880 5.1 "hidden recipient", gpg --throw-keyids): the receiver tries its keys
            esks += wire.build_packet(1, enc.pkesk_build(keypool.ref_public(r['kid']), cipher, session, pad_to=[None, 40, 48, None][b.get('skc', 0) % 4],
                                                         keyid=bytes(8) if b.get('anon') else None))
            if b.get('anon'):
                rec.note('bwd/hidden-recipient')
        else:
            spec_ = rs2k.Spec(b['s2k'], r['h'], b'\x01\x02\x03\x04\x05\x06\x07\x08', b['count'] if b['s2k'] == 'iterated' else None)
            if not b['esk'] and len(recips) == 1:
                session = rs2k.derive(spec_, r['pw'], rsym.KEYLEN[cipher])
                esks += wire.build_packet(3, enc.skesk_build(cipher, spec_, r['pw']))
                direct = True
            else:
                # the cipher that protects the session-key field need not be the cipher of the data (GnuPG mixes them)
                skc = [cipher, 7, 9, 3, 8, 13][b.get('skc', 0) % 6]
                esks += wire.build_packet(3, enc.skesk_build(skc, spec_, r['pw'], session, session_sym=cipher))
    cont = wire.build_packet(18, enc.seipd_build(cipher, session, inner)) if b['container'] == 18 else wire.build_packet(9, enc.sed_build(cipher, session, inner))
    if b.get('foreign') is not None and not direct:
        # one more recipient, whose key is of an algorithm this implementation has no fields for (private use 100-110 of RFC 4880 9.1,
        # ids later specifications assign): that packet is for somebody else and must not keep the others from reading the message
        other = wire.build_packet(1, b'\x03' + bytes(range(0xA0, 0xA8)) + bytes([b['foreign']]) + bytes((7 * i + 3) & 0xFF for i in range(32 + b['foreign'] % 9)))
        esks = other + esks if b['foreign'] % 2 else esks + other
        rec.note('bwd/further-recipient-of-unknown-algorithm')
    blob = esks + cont
    text = armor.write_block('MESSAGE', blob) if case['armored'] else blob
    kids = [r['kid'] for r in recips if r['t'] == 'key']
    for r in recips:
        who = 'pass' if r['t'] == 'pass' else r['kid']
        try:
            m2 = pgpy.PGPMessage.from_blob(text)
            if r['t'] == 'pass':
                dec = m2.decrypt(r['pw'])
            else:
                dec = keypool.pgpy_key(enckit.recipient_cert(kids, secret=True)).decrypt(m2)
        except Exception as e:   # noqa
            cause = ('hidden-recipient' if b.get('anon') and r['t'] == 'key' else recip_kinds([r])[0]) + '/container%d' % b['container']
            rec.finding('bwd/pgpy-decrypt', cause, case, '%s: %r' % (who, e))
            continue
        try:
            got = dec.message
            gotb = bytes(got) if isinstance(got, (bytes, bytearray)) else got.encode('latin-1' if fmt == 0x74 else 'utf-8')
            if gotb != body:
                rec.finding('bwd/content', 'content', case, '%s: %r != %r' % (who, gotb[:40], body[:40]))
            if dec.filename != b['fname'] or calendar.timegm(dec._message.mtime.utctimetuple()) != b['t'] or dec._message.format != chr(fmt) \
                    or int(dec._compression) != spec['comp']:
                rec.finding('bwd/metadata', 'metadata', case, '%s: filename %r time %r format %r comp %r' % (
                    who, dec.filename, dec._message.mtime, dec._message.format, dec._compression))
        except Exception as e:   # noqa
            rec.finding('bwd/content', 'exception/' + harness.exc_key(e), case, repr(e))


def eval_cleartext(case, rec):
    """a message in the cleartext framework (PGPMessage.new(..., cleartext=True)), signed or not, is a message too:
    encrypting it either is refused or gives something the recipient reads the same text from"""
    import pgpy
    from pgpy.constants import SymmetricKeyAlgorithm
    from pgpy.errors import PGPError, PGPEncryptionError
    text = case.get('text', 'cleartext message')
    signers = case['msg']['signers']
    r = case['recips'][0]
    rec.case(('clear', case['cipher'], recip_kinds([r])[0], len(signers), bool(text)), True, ['dir/fwd-cleartext-message', 'cipher/%d' % case['cipher'], 'signers/%d' % len(signers)],
             {'dir': 'fwd', 'form': 'cleartext message', 'text': text, 'signers': signers, 'recipient': recip_kinds([r])[0]})
    try:
        msg = pgpy.PGPMessage.new(text, cleartext=True)
        for kid in signers:
            msg |= keypool.pgpy_key(keypool.ref_cert(kid, secret=True)).sign(msg)
        try:
            if r['t'] == 'pass':
                e = msg.encrypt(r['pw'], cipher=SymmetricKeyAlgorithm(case['cipher']))
            else:
                e = keypool.pgpy_key(enckit.recipient_cert([r['kid']], secret=False)).subkeys
                e = list(e.values())[0].encrypt(msg, cipher=SymmetricKeyAlgorithm(case['cipher']))
        except (PGPError, PGPEncryptionError, NotImplementedError, TypeError, ValueError):
            rec.note('cleartext-message/encryption-refused')
            return
        blob = bytes(e)
    except Exception as ex:   # noqa
        rec.finding('fwd/encrypt', 'cleartext-message/exception/' + harness.exc_key(ex), case, repr(ex))
        return
    try:
        res = enc.decrypt_message(blob, passphrase=r['pw']) if r['t'] == 'pass' else enc.decrypt_message(blob, seckeys=[keypool.ref_secret(r['kid'])])
        pk = wire.split_packets(res['plaintext'])
        if pk and pk[0].tag == 8:
            pk = wire.split_packets(grammar.decompress(pk[0].body[0], pk[0].body[1:]))
        lits = [grammar.Literal(p.body) for p in pk if p.tag == 11]
    except (wire.WireError, Exception) as ex:   # noqa
        rec.finding('fwd/ref-decrypt', 'cleartext-message/' + type(ex).__name__, case, repr(ex))
        return
    if len(lits) != 1 or lits[0].data.decode('utf-8', 'replace').replace('\r\n', '\n') != text.replace('\r\n', '\n'):
        rec.finding('fwd/ref-plaintext', 'cleartext-message/text-lost', case, 'inner packet tags %r' % [p.tag for p in pk])


def evaluate(case, rec):
    if case['dir'] == 'clear':
        eval_cleartext(case, rec)
    elif case['dir'] == 'fwd':
        eval_forward(case, rec)
    else:
        eval_backward(case, rec)


def shard(arg):
    seed, idx, n, tier, bsec = arg
    rec = harness.Rec()
    budget = harness.Budget(bsec)
    harness.run_given(case_strategy(tier), lambda c: evaluate(c, rec), harness.derive_seed('C03', seed, idx), n, budget, rec)
    return rec


def matrix(arg):
    """covering: every cipher x every recipient kind (single recipient), both directions, small body"""
    part, nparts = arg
    rec = harness.Rec()
    i = 0
    recs = [{'t': 'key', 'kid': k} for k in enckit.FAST_ENC_KEYS] + [{'t': 'pass', 'pw': 'pässwörd ü', 'h': h} for h in (8, 2)]
    for cipher in enckit.CIPHERS:
        for r in recs:
            for d in ('fwd', 'bwd'):
                i += 1
                if i % nparts != part:
                    continue
                case = {'dir': d, 'msg': {'body': (b'covering matrix body %d ' % i * 3).hex(), 'fmt': 'b', 'sensitive': False, 'comp': i % 4,
                                        'signers': ['ed25519-1'] if i % 3 == 0 else [], 'peek': i % 6 == 0},
                        'cipher': cipher, 'recips': [r], 'armored': bool(i % 2), 'supplied': bool(i % 3 == 0),
                        'bwd': {'container': 18 if i % 5 else 9, 'esk': bool(i % 2), 'skc': i, 'foreign': [None, 100, None, 25][i % 4], 'anon': i % 7 == 3, 's2k': 'iterated' if i % 3 else 'salted', 'count': 16 + i % 50,
                                'hdr': ['new', 'old', 'partial', 'new5', 'indeterminate'][i % 5], 'fname': ['', 'f.txt', 'ünï.txt'][i % 3], 't': 1234567890}}
                evaluate(case, rec)
                if d == 'fwd' and i % 4 == 1:
                    evaluate(dict(case, dir='clear', text='cleartext message\n- of two lines'), rec)
                if d == 'fwd' and i % 4 == 3 and r['t'] == 'key':
                    # text in a declared character set, armored, the key ids thrown afterwards
                    evaluate(dict(case, armored=True, throw=True, msg=dict(case['msg'], fmt='t', charset='koi8-r', body='f0d2c9d7c5d42c20cdc9d2', signers=[])), rec)
    return rec


def run(tier, seed):
    tasks = [('matrix', (p, 8)) for p in range(8)]
    n, bsec = (50, 80) if tier == 'quick' else (700, 1500)
    for i in range(16 if tier == 'quick' else 32):
        tasks.append(('shard', (seed, i, n, tier, bsec)))
    return harness.pmap('vpgpy.props.c03', 'dispatch', tasks)


def dispatch(task):
    return globals()[task[0]](task[1])


def replay(case):
    rec = harness.Rec()
    evaluate(case, rec)
    return [(f['clause'], f['cause'], f['detail']) for f in rec.findings]
