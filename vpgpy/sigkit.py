"""Shared construction kit for the signature properties (C01, C02, C05, C17, ...):
valid (subject, signature, key) triples made through PGPy's API or by the reference signer, kept at
octet level so that both sides can be rebuilt from the same octets and mutated by byte surgery."""
import datetime

from . import keypool
from .refpgp import wire, keys as rkeys, sig as rsig, grammar

HASHES = {1: 'MD5', 2: 'SHA1', 3: 'RIPEMD160', 8: 'SHA256', 9: 'SHA384', 10: 'SHA512', 11: 'SHA224'}
HASH_IDS = [8, 2, 10, 9, 11, 1]

KINDS = ['doc', 'doc-msg', 'msg-u', 'msg-t', 'text', 'text-cleartext', 'standalone', 'timestamp', 'cert-10', 'cert-11', 'cert-12', 'cert-13',
         'cert-ua', 'cert-self', 'attest', 'direct-self', 'direct-3rd', 'revoker', 'bind', 'bind-signing', 'rev-key', 'rev-subkey',
         'rev-uid']

JPEG = bytes.fromhex('ffd8ffe000104a46494600010101004800480000ffdb004300') + bytes(range(64)) + bytes.fromhex('ffd9')


def utc(ts):
    return datetime.datetime.fromtimestamp(ts, datetime.timezone.utc)


class Triple(object):
    """kind in doc | text | none | cert | key | subkey (the 5.2.4 subject shape)"""

    def __init__(self):
        self.kind = None
        self.label = None          # generator kind label (KINDS)
        self.sig = None            # signature packet body octets
        self.signer_cert = None    # public transferable key of the signer (octets)
        self.signer_body = None    # public key body of the component that signed
        self.doc = b''
        self.tprimary = None       # target primary public body
        self.uid_kind = None
        self.uid_data = None
        self.tsubkey = None        # target subkey public body
        self.embedded = None       # for 'bind-signing': the embedded 0x19 body
        self.carrier_blob = None   # for inside-message / inside-key carriers
        self.note = ''

    def clone(self):
        t = Triple()
        t.__dict__.update(self.__dict__)
        return t

    # ---- reference view
    def ref_subject(self):
        if self.kind in ('doc', 'text'):
            return (self.kind, self.doc)
        if self.kind == 'none':
            return ('none',)
        tp = rkeys.parse_public_body(self.tprimary)[0]
        if self.kind == 'cert':
            return ('cert', tp, self.uid_kind, self.uid_data)
        if self.kind == 'key':
            return ('key', tp)
        if self.kind == 'subkey':
            return ('subkey', tp, rkeys.parse_public_body(self.tsubkey)[0])
        raise ValueError(self.kind)

    def ref_verdict(self, signer_body=None, check_left16=False):
        """reference verdict (True/False) for the current octets"""
        try:
            s = rsig.parse_sig_body(self.sig)
            pk = rkeys.parse_public_body(signer_body or self.signer_body)[0]
            return rsig.verify(s, self.ref_subject(), pk, check_left16=check_left16)[0]
        except (wire.WireError, IndexError, ValueError, KeyError, OverflowError):
            return False

    # ---- PGPy view
    def pg_sig(self):
        import pgpy
        return pgpy.PGPSignature.from_blob(wire.build_packet(2, self.sig))

    def pg_verifier(self, cert=None):
        return keypool.pgpy_key(cert or self.signer_cert)

    def pg_subject(self):
        if self.kind in ('doc', 'text') and getattr(self, 'as_message', None):
            # the document handed over as a message object (with the signature detached from it)
            import pgpy
            if self.as_message == 'cleartext':
                return pgpy.PGPMessage.new(bytes(self.doc).decode('utf-8', 'replace'), cleartext=True)
            return pgpy.PGPMessage.new(bytes(self.doc), format='b', compression=pgpy.constants.CompressionAlgorithm.Uncompressed)
        if self.kind in ('doc', 'text'):
            return bytes(self.doc)
        if self.kind == 'none':
            return None
        if self.kind == 'cert':
            k = keypool.pgpy_key(wire.build_packet(6, self.tprimary) + wire.build_packet(13 if self.uid_kind == 'uid' else 17, self.uid_data))
            return (k._uids[0] if self.uid_kind == 'uid' else k.userattributes[0]), k
        if self.kind == 'key':
            return keypool.pgpy_key(wire.build_packet(6, self.tprimary))
        if self.kind == 'subkey':
            k = keypool.pgpy_key(wire.build_packet(6, self.tprimary) + wire.build_packet(14, self.tsubkey))
            return list(k.subkeys.values())[0], k
        raise ValueError(self.kind)

    def pg_verdict(self, cert=None, copied=False):
        """('truthy'|'falsy'|'raised', detail).  Any exception counts as 'raised' (never a truthy verification).
        copied: the signature object is copied first (copy.copy), as happens inside derived public keys and copied keys/messages."""
        keep = []
        try:
            v = self.pg_verifier(cert)
            s = self.pg_sig()
            if copied:
                import copy
                s = copy.copy(s)
            subj = self.pg_subject()
            if isinstance(subj, tuple):
                keep.append(subj[1])
                subj = subj[0]
            r = v.verify(subj, s)
            return ('truthy' if r else 'falsy'), r
        except Exception as e:   # noqa
            return 'raised', e


def body_of(blob, index=0, tag=None):
    pk = wire.split_packets(bytes(blob))
    if tag is not None:
        pk = [p for p in pk if p.tag == tag]
    return pk[index].body


def signer_setup(kid, signing_subkey=None, enc_subkey=None):
    """-> (private PGPKey of the signer, public cert octets).  With signing_subkey the primary is certify-only,
    so that PGPy delegates data signatures to the subkey."""
    subs = []
    if signing_subkey:
        subs.append((signing_subkey, 0x02))
    if enc_subkey:
        subs.append((enc_subkey, 0x0C))
    pf = 0x01 if signing_subkey else 0x03
    sec = keypool.ref_cert(kid, subkeys=tuple(subs), secret=True, primary_flags=pf)
    pub = keypool.ref_cert(kid, subkeys=tuple(subs), secret=False, primary_flags=pf)
    return keypool.pgpy_key(sec), pub


def target_setup(kid, uid='Target Person (tgt) <target@example.net>', subkey='cv25519-1', secret=False):
    blob = keypool.ref_cert(kid, uids=(uid,), subkeys=((subkey, 0x0C),) if subkey else (), secret=secret)
    return blob


def make_triple(label, kid, halg, doc=b'', target='ed25519-2', signing_subkey=None, opts=None, created=None, uid=None):
    """Build a valid triple through PGPy's public API.  Raises whatever PGPy raises (caller classifies)."""
    import pgpy
    from pgpy.constants import HashAlgorithm, SignatureType, KeyFlags, RevocationReason
    opts = dict(opts or {})
    H = HashAlgorithm(halg)
    if target == kid:
        target = 'ed25519-1' if kid != 'ed25519-1' else 'ed25519-0'
    signer, signer_cert = signer_setup(kid, signing_subkey)
    if created is not None:
        opts['created'] = utc(created)
    t = Triple()
    t.label = label
    t.signer_cert = signer_cert
    primary_body = body_of(signer_cert, 0)
    sub_body = body_of(signer_cert, 0, tag=14) if signing_subkey else None
    t.signer_body = primary_body
    tuid = uid or 'Target Person (tgt) <target@example.net>'

    def fin(sig, kind):
        t.kind = kind
        t.sig = body_of(bytes(sig))
        s = rsig.parse_sig_body(t.sig)
        iss = rsig.issuer_keyid(s)
        if sub_body is not None and iss == rkeys.parse_public_body(sub_body)[0].keyid:
            t.signer_body = sub_body
        return t

    if label == 'doc':
        t.doc = bytes(doc)
        return fin(signer.sign(bytes(doc), hash=H, **opts), 'doc')
    if label == 'doc-msg':
        msg = pgpy.PGPMessage.new(bytes(doc), compression=pgpy.constants.CompressionAlgorithm.Uncompressed, format='b')
        sig = signer.sign(msg, hash=H, **opts)
        msg |= sig
        t.doc = bytes(doc)
        t.carrier_blob = bytes(msg)
        return fin(sig, 'doc')
    if label in ('msg-u', 'msg-t'):
        # a literal message in a text format, signed: the signature must be valid over the literal body as exported
        text = doc.decode('utf-8', 'replace') if isinstance(doc, (bytes, bytearray)) else doc
        msg = pgpy.PGPMessage.new(text, compression=pgpy.constants.CompressionAlgorithm.Uncompressed, format=label[-1])
        sig = signer.sign(msg, hash=H, **opts)
        msg |= sig
        t.carrier_blob = bytes(msg)
        t.doc = grammar.parse_message(t.carrier_blob).literal.data
        return fin(sig, 'doc')
    if label in ('text', 'text-cleartext'):
        text = doc.decode('utf-8', 'replace') if isinstance(doc, (bytes, bytearray)) else doc
        msg = pgpy.PGPMessage.new(text, cleartext=True)
        sig = signer.sign(msg, hash=H, **opts)
        msg |= sig
        # what a cleartext signature covers: the text without trailing blanks at line ends (RFC 4880 7.1)
        t.doc = '\n'.join(l.rstrip(' \t\r') for l in text.split('\n')).encode('utf-8')
        if label == 'text-cleartext':
            t.carrier_blob = str(msg)
        return fin(sig, 'text')
    if label == 'timestamp':
        return fin(signer.sign(None, hash=H, **opts), 'none')
    if label == 'standalone':
        o = dict(opts)
        o.setdefault('notation', {'note@example.org': 'standalone'})
        return fin(signer.sign(None, hash=H, **o), 'none')

    # subjects that are keys / user ids
    if label in ('cert-self', 'attest', 'direct-self', 'revoker', 'bind', 'bind-signing', 'rev-key', 'rev-subkey'):
        tk = signer
        t.tprimary = primary_body
    else:
        tblob = target_setup(target, tuid)
        tk = keypool.pgpy_key(tblob)
        t.tprimary = body_of(tblob, 0)
    if label.startswith('cert-1'):
        lvl = SignatureType(int(label[5:], 16))
        u = tk.userids[0]
        t.uid_kind, t.uid_data = 'uid', body_of(bytes(tk), 0, tag=13)
        return fin(signer.certify(u, lvl, hash=H, **opts), 'cert')
    if label == 'cert-ua':
        ua = pgpy.PGPUID.new(bytearray(JPEG))
        tk.add_uid(ua, selfsign=False)
        t.uid_kind, t.uid_data = 'ua', body_of(bytes(tk), 0, tag=17)
        return fin(signer.certify(tk.userattributes[0], SignatureType.Generic_Cert, hash=H, **opts), 'cert')
    if label == 'cert-self':
        nu = pgpy.PGPUID.new(uid or 'Second Identity', comment='self', email='second@example.org')
        nu._parent = signer     # what add_uid() does before self-certifying
        sig = signer.certify(nu, SignatureType.Positive_Cert, hash=H, usage={KeyFlags.Sign, KeyFlags.Certify}, **opts)
        t.uid_kind, t.uid_data = 'uid', nu._uid.__bytearray__()[len(nu._uid.header):]
        t.uid_data = bytes(t.uid_data)
        return fin(sig, 'cert')
    if label == 'attest':
        other, _ = signer_setup(target)
        u = signer.userids[0]
        third = other.certify(u, SignatureType.Generic_Cert)
        t.uid_kind, t.uid_data = 'uid', body_of(signer_cert, 0, tag=13)
        return fin(signer.certify(u, SignatureType.Attestation, hash=H, attested_certifications=[third], **opts), 'cert')
    if label == 'rev-uid':
        u = tk.userids[0]
        t.uid_kind, t.uid_data = 'uid', body_of(bytes(tk), 0, tag=13)
        return fin(signer.revoke(u, hash=H, reason=RevocationReason.UserID, comment='no longer valid', **opts), 'cert')
    if label in ('direct-self', 'direct-3rd'):
        return fin(signer.certify(tk, hash=H, **opts), 'key')
    if label == 'revoker':
        other = keypool.pgpy_key(target_setup(target))
        return fin(signer.revoker(other, hash=H, **opts), 'key')
    if label == 'rev-key':
        return fin(signer.revoke(signer, hash=H, reason=RevocationReason.Retired, comment='retired', **opts), 'key')
    if label in ('bind', 'bind-signing', 'rev-subkey'):
        newsub = 'ed25519-1' if label == 'bind-signing' else 'cv25519-0'
        if kid == newsub:
            newsub = 'ed25519-2' if label == 'bind-signing' else 'cv25519-1'
        sk = keypool.pgpy_key(wire.build_packet(5, keypool.secret_body(newsub)))
        usage = {KeyFlags.Sign} if label == 'bind-signing' else {KeyFlags.EncryptCommunications, KeyFlags.EncryptStorage}
        signer.add_subkey(sk, usage=usage, hash=H, **opts)
        sub = [v for v in signer.subkeys.values() if v.fingerprint == sk.fingerprint][0]
        t.tsubkey = keypool.public_body(newsub)
        if label == 'rev-subkey':
            return fin(signer.revoke(sub, hash=H, reason=RevocationReason.Superseded, comment='', **opts), 'subkey')
        bsig = [s for s in sub._signatures if s.type == SignatureType.Subkey_Binding][0]
        fin(bsig, 'subkey')
        if label == 'bind-signing':
            s = rsig.parse_sig_body(t.sig)
            emb = rsig.sub_values(s, 32)
            if emb:
                t.embedded = emb[0]
        return t
    raise ValueError('unknown kind %r' % label)


def embedded_triple(t):
    """the primary-key-binding (0x19) signature embedded in a bind-signing triple, as a triple of its own"""
    e = t.clone()
    e.sig = t.embedded
    e.signer_body = t.tsubkey
    e.label = 'pkbind-19'
    # verifying cert: the signer's cert with the new subkey appended, so that PGPy can route to the subkey
    e.signer_cert = t.signer_cert + wire.build_packet(14, t.tsubkey) + wire.build_packet(2, t.sig)
    return e
