"""Entry point:  vcheck <ID> <quick|thorough>   |   vcheck <ID> --replay FILE

exit 0: property held on everything explored (KNOWN-FINDING lines possible)
exit 1: VIOLATION property=<id> replay=<path>   (a violation not listed in known_findings.jsonl)
exit 2: harness error (never a violation)
"""
import importlib
import json
import os
import sys
import time
import traceback

HERE = os.path.dirname(os.path.abspath(__file__))
VERIF = os.path.dirname(HERE)
sys.path.insert(0, VERIF)

from vpgpy import harness  # noqa: E402


def load_module(pid):
    return importlib.import_module('vpgpy.props.' + pid.lower())


def do_replay(pid, path):
    harness.setup_pgpy()
    mod = load_module(pid)
    doc = json.load(open(path))
    res = mod.replay(doc['case'])
    hit = [r for r in res if r[0] == doc.get('clause') and r[1] == doc.get('cause')]
    for r in res:
        print('finding: clause=%s cause=%s detail=%s' % (r[0], r[1], str(r[2])[:300]))
    if hit:
        print('VIOLATION property=%s replay=%s' % (pid, path))
        return 1
    print('replay: recorded bucket no longer fails (%d other findings)' % len(res))
    return 1 if res else 0


def main(argv):
    if len(argv) < 3:
        print(__doc__)
        return 2
    pid = argv[1].upper()
    if argv[2] == '--replay':
        return do_replay(pid, argv[3])
    tier = argv[2]
    if tier not in ('quick', 'thorough'):
        print(__doc__)
        return 2
    tier = os.environ.get('VERIF_TIER', tier) if os.environ.get('VERIF_TIER') in ('quick', 'thorough') else tier
    seed = harness.env_seed()
    t0 = time.time()
    harness.setup_pgpy()
    mod = load_module(pid)
    # the reference implementation must agree with itself and with foreign fixtures first
    from vpgpy.refpgp import selftest
    selftest.run(quick=True)

    known = harness.load_known(pid)
    rec = mod.run(tier, seed)

    # re-execute the stored replays of open findings: print KNOWN-FINDING only while they still fail
    known_lines = []
    for e in known:
        if e.get('status') != 'open':
            continue
        still = None
        rp = e.get('replay')
        if rp and os.path.exists(os.path.join(VERIF, rp)):
            doc = json.load(open(os.path.join(VERIF, rp)))
            try:
                res = mod.replay(doc['case'])
            except Exception as ex:   # noqa
                raise harness.HarnessError('replay of known finding %s crashed: %r' % (rp, ex))
            still = any(r[0] == e['clause'] and r[1] == e['cause'] for r in res)
        seen = rec.bucket_counts.get((e['clause'], e['cause']), 0)
        if still or (still is None and seen):
            line = 'KNOWN-FINDING: property=%s %s [clause=%s cause=%s; %d generated cases hit it]' % (
                pid, e.get('what', ''), e['clause'], e['cause'], seen)
            print(line)
            known_lines.append(line)

    # unknown buckets -> violations
    seen_buckets = {}
    for f in rec.findings:
        b = (f['clause'], f['cause'])
        if harness.is_known(known, *b):
            continue
        if b not in seen_buckets:
            seen_buckets[b] = f
    violations = 0
    for b, f in sorted(seen_buckets.items()):
        # optional minimisation offered by the property module
        if hasattr(mod, 'minimise'):
            try:
                small = mod.minimise(f)
                if small is not None:
                    f = dict(f, case=small)
            except Exception:   # noqa
                pass
        path = harness.write_replay(pid, f)
        print('VIOLATION property=%s replay=%s' % (pid, path))
        print('  clause=%s cause=%s n=%d detail=%s' % (b[0], b[1], rec.bucket_counts[b], f.get('detail', '')[:400]))
        violations += 1

    wall = time.time() - t0
    g = selftest.gpg_crosschecks()
    oracle = {'reference_selftest': 'RFC examples + 62 GnuPG-made fixture signatures verified by refpgp',
              'gnupg_crosschecks': ('%d artefacts cross-checked between refpgp and /usr/bin/gpg (certificates, binary/text/cleartext signatures, symmetric and public-key '
                                    'encryption, both directions)' % g) if g is not None else 'gpg not installed: skipped'}
    harness.write_evidence(pid, tier, seed, rec, mod.RULE, wall, violations, list(mod.ASSUMPTIONS), known_lines, extra={'oracle_validation': oracle})
    print('%s %s seed=%d: evaluations=%d distinct_nontrivial=%d violations=%d known=%d inconclusive=%s wall=%.1fs' % (
        pid, tier, seed, rec.evaluations, len(rec.nontrivial), violations, len(known_lines), rec.inconclusive, wall))
    if len(rec.nontrivial) < 2 or rec.evaluations < 1:
        raise harness.HarnessError('check explored nothing non-trivial')
    return 1 if violations else 0


if __name__ == '__main__':
    try:
        rc = main(sys.argv)
    except harness.HarnessError as e:
        print('HARNESS-ERROR: %s' % e)
        rc = 2
    except SystemExit:
        raise
    except BaseException:   # noqa
        print('HARNESS-ERROR: unexpected exception in the checking machinery')
        traceback.print_exc()
        rc = 2
    sys.stdout.flush()
    sys.exit(rc)
